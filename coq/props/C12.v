(** Property C12 — the front end is total: any source text yields an AST or a diagnostic. *)
From Tx3 Require Import Base Peg Peg_proofs Peg_term.
From Tx3.gen Require Import Grammar.

(** the grammar of the current tree (generated from tx3.pest) is well formed: every rule it
    refers to exists, no rule can reach itself before consuming input (no left recursion),
    and nothing that can match the empty string is repeated - the conditions under which a
    recursive-descent PEG parser cannot loop *)
Theorem C12_grammar_well_formed : wf_grammar tx3_grammar = true.
Proof. vm_compute. reflexivity. Qed.

(** the interpreter only ever consumes a prefix of its input *)
Theorem C12_matches_are_prefixes : forall g fuel atomic e inp pos rest pos',
  run g fuel atomic e inp pos = RMatch rest pos' -> adv inp pos rest pos'.
Proof. exact run_adv. Qed.

(** non-vacuity: the grammar accepts a small program and rejects a broken one *)
Example C12_accepts_example :
  accepts tx3_grammar 2000 "program" [116;120;32;116;40;41;32;123;125]%N = Some true /\
  accepts tx3_grammar 2000 "program" [116;120;32;116;40;32;123;125]%N = Some false.
Proof. split; vm_compute; reflexivity. Qed.

(** a verdict, once reached, is the verdict at every larger fuel: fuel only decides whether the
    interpreter answers, never what it answers *)
Theorem C12_verdict_independent_of_fuel : forall g f atomic e inp pos r,
  run g f atomic e inp pos = r -> r <> RFuel -> forall f', (f <= f')%nat -> run g f' atomic e inp pos = r.
Proof. exact run_mono. Qed.
Theorem C12_verdict_unique : forall g f1 f2 start inp b1 b2,
  accepts g f1 start inp = Some b1 -> accepts g f2 start inp = Some b2 -> b1 = b2.
Proof. exact accepts_deterministic. Qed.

(** recursive descent over a grammar without left recursion ends on every input: given the three
    boolean certificates (nullable rules closed under the analysis, a rank that decreases along
    every call made before input is consumed, WHITESPACE / COMMENT calling no other rule), every
    expression answers at some fuel for every text, mode and position *)
Theorem C12_checked_grammar_terminates : forall g nl rk,
  nl_closed g nl = true -> rank_ok g nl rk = true -> skip_ok g = true ->
  forall a e inp pos, exists f, run g f a e inp pos <> RFuel.
Proof. exact checked_grammar_terminates. Qed.

(** the grammar of the current tree carries these certificates (computed here, from the generated
    grammar): the parser's language is decided for EVERY text - there is a fuel from which on the
    interpreter answers, and always the same *)
Theorem C12_every_parse_terminates : forall start inp,
  exists f b, forall f', (f <= f')%nat -> accepts tx3_grammar f' start inp = Some b.
Proof.
  apply (checked_grammar_decides tx3_grammar (nullable_rules tx3_grammar)
           (rank_of (rank_table tx3_grammar (nullable_rules tx3_grammar)))); vm_compute; reflexivity.
Qed.

Print Assumptions C12_verdict_independent_of_fuel.
Print Assumptions C12_verdict_unique.
Print Assumptions C12_grammar_well_formed.
Print Assumptions C12_matches_are_prefixes.
Print Assumptions C12_checked_grammar_terminates.
Print Assumptions C12_every_parse_terminates.
