(** Property C14 — the back end is total: the panic-site inventory of the model. *)
From Tx3 Require Import Base Tir Reduce PlutusData Compile Compile_proofs.

Theorem C14_hash_construction_total : forall n b s, hash_from n b <> Panic s /\ hash_from n b <> Overflow s.
Proof. exact hash_from_no_panic. Qed.
Theorem C14_number_conversions_total : forall z s, number_into_u64 z <> Panic s /\ number_into_i64 z <> Panic s.
Proof. exact number_conversions_no_panic. Qed.
Theorem C14_int_arithmetic_total : forall x e s,
  add_number x e <> Panic s /\ add_number x e <> Overflow s /\
  neg_expr (ENumber x) <> Panic s /\ neg_expr (ENumber x) <> Overflow s.
Proof. exact int_arith_no_panic. Qed.
Theorem C14_utxo_refs_total : forall e s, expr_into_utxo_refs e <> Panic s /\ expr_into_utxo_refs e <> Overflow s.
Proof. exact utxo_refs_no_panic. Qed.

Print Assumptions C14_hash_construction_total.
Print Assumptions C14_number_conversions_total.
Print Assumptions C14_int_arithmetic_total.
Print Assumptions C14_utxo_refs_total.
