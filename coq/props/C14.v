(** Property C14 — the back end is total: the panic-site inventory of the model. *)
From Tx3 Require Import Base Tir Reduce PlutusData Compile Compile_proofs NoPanic Compile_accounts.

Theorem C14_hash_construction_total : forall n b s, hash_from n b <> Panic s /\ hash_from n b <> Overflow s.
Proof. exact hash_from_no_panic. Qed.
Theorem C14_number_conversions_total : forall z s, number_into_u64 z <> Panic s /\ number_into_i64 z <> Panic s.
Proof. exact number_conversions_no_panic. Qed.
Theorem C14_int_arithmetic_total : forall x e s,
  add_number x e <> Panic s /\ add_number x e <> Overflow s /\
  neg_expr (ENumber x) <> Panic s /\ neg_expr (ENumber x) <> Overflow s.
Proof. exact int_arith_no_panic. Qed.
Theorem C14_utxo_refs_total : forall e s, expr_into_utxo_refs e <> Panic s /\ expr_into_utxo_refs e <> Overflow s.
Proof. exact utxo_refs_no_panic. Qed.

(** the whole modelled back end: for every IR whose references carry 32-bit indices (what the
    Rust type holds), every oracle for pallas' address functions and every set of cost models,
    compile_tx answers with a transaction or an error - its one panic site (the look-up of an
    input's own reference in the body) is unreachable *)
Theorem C14_compile_never_panics : forall mainnet addr_parse addr_of_string keyhash_of_addr reward_of_addr native_script_ok has_cost_model t,
  idx32 t = true ->
  np (compile_tx mainnet addr_parse addr_of_string keyhash_of_addr reward_of_addr native_script_ok has_cost_model t).
Proof. exact compile_tx_never_panics. Qed.
(** the reducer, at every fuel and for every set-order oracle, on every IR *)
Theorem C14_reduce_never_panics : forall pick f e, np (reduce pick f e).
Proof. exact reduce_never_panics. Qed.
Theorem C14_tx_reduce_never_panics : forall pick t, np (tx_reduce pick t).
Proof. exact tx_reduce_never_panics. Qed.
(** the compiler-op stage, for every chain point and every min_utxo oracle that itself answers *)
Theorem C14_compiler_ops_never_panic : forall pick c t, (forall i, np (cfg_min_utxo c i)) -> np (tx_visit pick c t).
Proof. exact tx_visit_never_panics. Qed.
(** [np] says what it should *)
Theorem C14_np_is_no_panic : forall A (x : outcome A), np x <-> (forall s, x <> Panic s /\ x <> Overflow s).
Proof. intros A x. destruct x; cbn; split; try tauto; try (intros _ s0; split; discriminate); intros H; destruct (H site) as [H1 H2]; congruence. Qed.

(** the ledger order of reward accounts is defined on every byte string - also on the empty
    account that a credential without delegation part gives, and on accounts of any length:
    sorting neither loses nor invents an account, whatever the template supplies *)
Theorem C14_reward_sort_total_on_any_account : forall (l : list bytes) (x : bytes), x ∈ sort_accts l <-> x ∈ l.
Proof. exact sort_accts_perm. Qed.

Print Assumptions C14_hash_construction_total.
Print Assumptions C14_number_conversions_total.
Print Assumptions C14_int_arithmetic_total.
Print Assumptions C14_utxo_refs_total.
Print Assumptions C14_compile_never_panics.
Print Assumptions C14_reduce_never_panics.
Print Assumptions C14_tx_reduce_never_panics.
Print Assumptions C14_compiler_ops_never_panic.
Print Assumptions C14_np_is_no_panic.
Print Assumptions C14_reward_sort_total_on_any_account.
