(** Property C07 — staged application is order-independent. *)
From Tx3 Require Import Base Tir Reduce Reduce_proofs Reduce_values Reduce_closed Reduce_idem.

Theorem C07_args_fees_commute : forall a f e, apply_args a (apply_fees f e) = apply_fees f (apply_args a e).
Proof. exact args_fees_commute. Qed.
Theorem C07_args_inputs_commute : forall a i e, apply_args a (apply_inputs i e) = apply_inputs i (apply_args a e).
Proof. exact args_inputs_commute. Qed.
Theorem C07_fees_inputs_commute : forall f i e, apply_fees f (apply_inputs i e) = apply_inputs i (apply_fees f e).
Proof. exact fees_inputs_commute. Qed.
Theorem C07_tx_stages_commute : forall a i f t,
  tx_apply_args a (tx_apply_fees f t) = tx_apply_fees f (tx_apply_args a t) /\
  tx_apply_args a (tx_apply_inputs i t) = tx_apply_inputs i (tx_apply_args a t) /\
  tx_apply_fees f (tx_apply_inputs i t) = tx_apply_inputs i (tx_apply_fees f t).
Proof. exact tx_stages_commute. Qed.

(** reducing an already reduced template changes nothing: plain data (what a fully applied and
    reduced template consists of) is a fixed point of reduce at every sufficient fuel *)
Theorem C07_values_are_fixed_points : forall e, is_value e = true ->
  exists f0, forall f, (f0 <= f)%nat -> forall pick, reduce pick f e = Ok e.
Proof. exact reduce_value_fixed. Qed.
(** ... and every result of reduce on a closed template is such a value: reduce is idempotent
    on every template that has been fully applied (no unfilled parameter, query, fee reference
    or compiler op; applied parameters hold argument values, resolved UTxOs plain datums),
    whichever element the hash sets yield first in either pass *)
Theorem C07_reduce_idempotent_closed : forall pick f e e',
  is_constant e = true -> datums_plain e = true -> sets_values e = true -> reduce pick f e = Ok e' ->
  exists f0, forall f', (f0 <= f')%nat -> forall pick', reduce pick' f' e' = Ok e'.
Proof. exact reduce_idempotent_closed. Qed.
(** the hypothesis about applied parameters is what the apply stages establish *)
Theorem C07_apply_stages_fill_values : forall args ins fee e, sets_values e = true ->
  sets_values (apply_args args e) = true /\ sets_values (apply_inputs ins e) = true /\ sets_values (apply_fees fee e) = true.
Proof.
  intros args ins fee e H.
  exact (conj (apply_args_sets_values args e H) (conj (apply_inputs_sets_values ins e H) (apply_fees_sets_values fee e H))).
Qed.

Print Assumptions C07_values_are_fixed_points.
Print Assumptions C07_args_fees_commute.
Print Assumptions C07_args_inputs_commute.
Print Assumptions C07_fees_inputs_commute.
Print Assumptions C07_tx_stages_commute.
Print Assumptions C07_reduce_idempotent_closed.
Print Assumptions C07_apply_stages_fill_values.
