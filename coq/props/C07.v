(** Property C07 — staged application is order-independent. *)
From Tx3 Require Import Base Tir Reduce Reduce_proofs.

Theorem C07_args_fees_commute : forall a f e, apply_args a (apply_fees f e) = apply_fees f (apply_args a e).
Proof. exact args_fees_commute. Qed.
Theorem C07_args_inputs_commute : forall a i e, apply_args a (apply_inputs i e) = apply_inputs i (apply_args a e).
Proof. exact args_inputs_commute. Qed.
Theorem C07_fees_inputs_commute : forall f i e, apply_fees f (apply_inputs i e) = apply_inputs i (apply_fees f e).
Proof. exact fees_inputs_commute. Qed.
Theorem C07_tx_stages_commute : forall a i f t,
  tx_apply_args a (tx_apply_fees f t) = tx_apply_fees f (tx_apply_args a t) /\
  tx_apply_args a (tx_apply_inputs i t) = tx_apply_inputs i (tx_apply_args a t) /\
  tx_apply_fees f (tx_apply_inputs i t) = tx_apply_inputs i (tx_apply_fees f t).
Proof. exact tx_stages_commute. Qed.

Print Assumptions C07_args_fees_commute.
Print Assumptions C07_args_inputs_commute.
Print Assumptions C07_fees_inputs_commute.
Print Assumptions C07_tx_stages_commute.
