(** Property C07 — staged application is order-independent. *)
From Tx3 Require Import Base Tir Reduce Reduce_proofs Reduce_values.

Theorem C07_args_fees_commute : forall a f e, apply_args a (apply_fees f e) = apply_fees f (apply_args a e).
Proof. exact args_fees_commute. Qed.
Theorem C07_args_inputs_commute : forall a i e, apply_args a (apply_inputs i e) = apply_inputs i (apply_args a e).
Proof. exact args_inputs_commute. Qed.
Theorem C07_fees_inputs_commute : forall f i e, apply_fees f (apply_inputs i e) = apply_inputs i (apply_fees f e).
Proof. exact fees_inputs_commute. Qed.
Theorem C07_tx_stages_commute : forall a i f t,
  tx_apply_args a (tx_apply_fees f t) = tx_apply_fees f (tx_apply_args a t) /\
  tx_apply_args a (tx_apply_inputs i t) = tx_apply_inputs i (tx_apply_args a t) /\
  tx_apply_fees f (tx_apply_inputs i t) = tx_apply_inputs i (tx_apply_fees f t).
Proof. exact tx_stages_commute. Qed.

(** reducing an already reduced template changes nothing: plain data (what a fully applied and
    reduced template consists of) is a fixed point of reduce at every sufficient fuel *)
Theorem C07_values_are_fixed_points : forall e, is_value e = true ->
  exists f0, forall f, (f0 <= f)%nat -> forall pick, reduce pick f e = Ok e.
Proof. exact reduce_value_fixed. Qed.

Print Assumptions C07_values_are_fixed_points.
Print Assumptions C07_args_fees_commute.
Print Assumptions C07_args_inputs_commute.
Print Assumptions C07_fees_inputs_commute.
Print Assumptions C07_tx_stages_commute.
