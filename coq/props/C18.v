(** Property C18 — lowering and encoding are deterministic. *)
From stdpp Require Import sorting.
From Tx3 Require Import Base Tir Reduce Serde Front_proofs Serde_order.

(** the key-ordered view under which directive fields are serialized does not depend on the
    order in which the hash map yields them *)
Theorem C18_key_order_independent_of_iteration_order : forall (l1 l2 : list (string * expr)),
  NoDup (map fst l1) -> l1 ≡ₚ l2 -> bt_of_list l1 = bt_of_list l2.
Proof. exact bt_of_list_perm_invariant. Qed.

Theorem C18_key_order_sorted : forall (l : list (string * expr)), StronglySorted key_lt (bt_of_list l).
Proof. exact bt_of_list_sorted. Qed.

(** string_ltb, the order of the keys, is a strict total order *)
Theorem C18_key_order_total : forall a b, string_ltb a b = false -> string_ltb b a = false -> a = b.
Proof. exact string_ltb_total. Qed.

(** the bytes of a whole encoded transaction are one byte string whatever order the hash maps
    of its ad-hoc directives yield their fields in: replacing every directive by the same
    directive met under another iteration order leaves to_bytes unchanged *)
Theorem C18_encoding_independent_of_iteration_order : forall (t : tx) (a2 : list adhoc),
  Forall2 adhoc_same (tx_adhoc t) a2 -> to_bytes (with_adhoc t a2) = to_bytes t.
Proof. exact to_bytes_iteration_order_independent. Qed.

Print Assumptions C18_key_order_independent_of_iteration_order.
Print Assumptions C18_key_order_sorted.
Print Assumptions C18_key_order_total.
Print Assumptions C18_encoding_independent_of_iteration_order.
