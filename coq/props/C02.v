(** Property C02 — quantities are never silently wrapped, truncated or dropped. *)
From Tx3 Require Import Base Assets Assets_proofs Tir Reduce PlutusData Compile Compile_proofs Compile_values.

Theorem C02_u64_exact_or_error : forall z v, number_into_u64 z = Ok v -> v = z /\ (0 <= z < 2 ^ 64)%Z.
Proof. exact number_into_u64_exact. Qed.
Theorem C02_u64_out_of_range_is_error : forall z, ~ (0 <= z < 2 ^ 64)%Z -> number_into_u64 z = Err "CoerceError".
Proof. exact number_into_u64_refuses. Qed.
Theorem C02_i64_exact_or_error : forall z v, number_into_i64 z = Ok v -> v = z /\ (- 2 ^ 63 <= z < 2 ^ 63)%Z.
Proof. exact number_into_i64_exact. Qed.
Theorem C02_lovelace_exact_in_range : forall n z, (0 <= z < 2 ^ 64)%Z -> compile_value (ENone, n, ENumber z) = Ok (VCoin z).
Proof. exact compile_value_lovelace_exact. Qed.
Theorem C02_native_exact_in_range : forall p n z, length p = 28%nat -> (0 < z < 2 ^ 63)%Z ->
  compile_value (EBytes p, EBytes n, ENumber z) = Ok (VMulti 0 [(p, [(n, z)])]).
Proof. exact compile_value_native_exact. Qed.
Theorem C02_mint_exact_or_error : forall burn p n z r,
  compile_mint_asset burn (EBytes p, EBytes n, ENumber z) = Ok r ->
  exists v, r = [(p, [(n, v)])] /\ v = (if burn then - z else z)%Z /\ v <> 0%Z /\ (- 2 ^ 63 <= v < 2 ^ 63)%Z.
Proof. exact compile_mint_asset_exact. Qed.
(** the full statement is false of the code for output amounts (known findings F02-1, F02-2) *)
Theorem C02_negative_lovelace_refuted :
  exists z v, (z < 0)%Z /\ compile_value (ENone, ENone, ENumber z) = Ok (VCoin v) /\ v <> z.
Proof. exact compile_value_negative_lovelace_refuted. Qed.
Theorem C02_negative_native_refuted :
  exists p, length p = 28%nat /\ compile_value (EBytes p, EBytes [], ENumber (-5)) = Ok (VCoin 0).
Proof. exact compile_value_negative_native_refuted. Qed.
(** the lovelace of an output is the exact sum of the lovelace of its entries - the running sum
    is checked at every step - and a sum that does not fit the coin field is refused *)
Theorem C02_output_coin_is_exact_sum : forall vs c m,
  aggregate_values vs = Ok (c, m) -> c = coin_sum vs /\ (vs <> [] -> (c < 2 ^ 64)%Z).
Proof. exact aggregate_coin_exact. Qed.
Theorem C02_output_coin_overflow_refused : forall vs,
  (forall v, v ∈ vs -> (0 <= coin_of v)%Z) -> (2 ^ 64 <= coin_sum vs)%Z -> forall r, aggregate_values vs <> Ok r.
Proof. exact aggregate_coin_overflow_refused. Qed.
(** the balance equation of a template whose change output is written as
    inputs + mint - burn - fees - (the other outputs): consumed plus minted value equals produced
    plus burned value plus the fee, asset class by asset class, over unbounded integers *)
Theorem C02_balance_equation : forall consumed mint burn fee others,
  let change := a_sub (a_sub (a_sub (a_add consumed mint) burn) fee) others in
  a_add consumed mint ≈ a_add (a_add (a_add change others) burn) fee.
Proof. exact balance_preserved. Qed.

Print Assumptions C02_u64_exact_or_error.
Print Assumptions C02_u64_out_of_range_is_error.
Print Assumptions C02_i64_exact_or_error.
Print Assumptions C02_lovelace_exact_in_range.
Print Assumptions C02_native_exact_in_range.
Print Assumptions C02_mint_exact_or_error.
Print Assumptions C02_negative_lovelace_refuted.
Print Assumptions C02_negative_native_refuted.
Print Assumptions C02_balance_equation.
Print Assumptions C02_output_coin_is_exact_sum.
Print Assumptions C02_output_coin_overflow_refused.
