(** Property C17 — the published interface agrees with the IR it ships. *)
From stdpp Require Import sorting.
From Tx3 Require Import Base Tir Reduce Surface Lower Analyze Front_proofs Lower_names Analyze_names.

(** when the analyzer's duplicate check passes, distinct declared argument names (environment
    values, parties, parameters) never share a key of the argument map *)
Theorem C17_argument_keys_do_not_collide : forall p t n1 n2,
  arg_names_ok p t = true ->
  let declared := map fst (sp_env p) ++ sp_parties p ++ map fst (st_params t) in
  n1 ∈ declared -> n2 ∈ declared -> to_lower n1 = to_lower n2 -> n1 = n2.
Proof. exact arg_keys_injective. Qed.

(** the key under which the IR requires an argument is the lower-cased declared name, and
    lower-casing is idempotent (the interface applies it to the same names) *)
Theorem C17_lowercase_idempotent : forall s, to_lower (to_lower s) = to_lower s.
Proof. exact to_lower_idem. Qed.

(** the set of keys the IR reports is listed in key order without duplicates *)
Theorem C17_reported_params_sorted : forall t, StronglySorted (@key_lt ty) (find_params t).
Proof. intros t. apply bt_of_list_sorted. Qed.

(** every argument key that the IR of a lowered transaction requires is the lower-cased
    spelling of a declared environment value, party or parameter - which is what the interface
    publishes: the IR never asks for a name the interface does not carry *)
Theorem C17_required_keys_are_declared : forall p t ir, lower_tx p t = Ok ir ->
  forall k, k ∈ map fst (tx_params ir) -> exists n, n ∈ declared p t /\ k = to_lower n.
Proof. exact lowered_params_are_declared. Qed.

(** the interface entry of a name and the IR that the name lowers to come from one definition:
    in an accepted program, lowering by the name of any definition gives the IR of that very
    definition (finding F17-3, repaired: two transactions of one name were accepted) *)
Theorem C17_lower_by_name_unambiguous : forall p t,
  analyze_ok p = true -> t ∈ sp_txs p -> lower p (st_name t) = lower_tx p t.
Proof. exact lower_by_name_unambiguous. Qed.

(** no top-level definition hides another: environment values, parties, policies, assets and
    types of an accepted program have pairwise different names (finding F17-4, repaired) *)
Theorem C17_top_level_names_unique : forall p, analyze_ok p = true ->
  NoDup (map fst (sp_env p) ++ sp_parties p ++ map fst (sp_policies p) ++ map (fun a => fst (fst a)) (sp_assets p) ++ map td_name (sp_types p)).
Proof. exact top_level_names_unique. Qed.

Print Assumptions C17_required_keys_are_declared.
Print Assumptions C17_argument_keys_do_not_collide.
Print Assumptions C17_lowercase_idempotent.
Print Assumptions C17_reported_params_sorted.
Print Assumptions C17_lower_by_name_unambiguous.
Print Assumptions C17_top_level_names_unique.
