(** Property C09 — datums and redeemers are encoded as standard Plutus Data. *)
From Tx3 Require Import Base Tir PlutusData PlutusData_proofs.

(** the codec law: the reader written from the specification recovers every value from the
    bytes the encoder model produces (any nesting, any constructor index, any integer within
    +-2^1024, any byte-string length) *)
Theorem C09_decode_encode : forall d, ok_pdata d = true ->
  forall f rest, (psize d <= f)%nat -> decode f (encode d ++ rest) = Some (d, rest).
Proof. exact decode_encode. Qed.
Theorem C09_int_any_size : forall z rest f, int_ok z = true -> decode (S f) (enc_int z ++ rest) = Some (PInt z, rest).
Proof. exact decode_int. Qed.
Theorem C09_bytes_any_length : forall b rest,
  (N.of_nat (length b) < 2 ^ 64)%N -> dec_bytes (enc_bytes b ++ rest) = Some (b, rest).
Proof. exact dec_bytes_enc_bytes. Qed.
Theorem C09_constr_tags : forall i,
  ((i < 7)%N -> constr_tag i = ((121 + i)%N, false)) /\
  ((7 <= i < 128)%N -> constr_tag i = ((1280 + (i - 7))%N, false)) /\
  ((128 <= i)%N -> constr_tag i = (102%N, true)).
Proof. exact constr_tag_convention. Qed.
Theorem C09_fields_in_declaration_order : forall c fs d,
  compile_data_expr (EStruct c fs) = Ok d ->
  exists ds, d = PConstr c ds /\ Forall2 (fun f x => compile_data_expr f = Ok x) fs ds.
Proof. exact struct_fields_in_order. Qed.
(** the entries of a map and the elements of a list are converted in the order written, none
    merged, reordered or dropped *)
Theorem C09_map_entries_in_order : forall kvs d,
  try_as_data (EMap kvs) = Ok d ->
  exists ps, d = PMap ps /\
    Forall2 (fun kv p => try_as_data (fst kv) = Ok (fst p) /\ try_as_data (snd kv) = Ok (snd p)) kvs ps.
Proof. exact map_entries_in_order. Qed.
Theorem C09_list_elements_in_order : forall xs d,
  try_as_data (EList xs) = Ok d -> exists ds, d = PList ds /\ Forall2 (fun x p => try_as_data x = Ok p) xs ds.
Proof. exact list_elements_in_order. Qed.

From Tx3 Require Import Surface Lower Lower_ctor.
(** the constructor alternative of a lowered record / variant constructor is the index of the
    case the template names, with one field per declared field of that case - whatever value is
    spread into it *)
Theorem C09_constructor_is_named_case : forall p t f d c tyname case fields spread e td,
  lower_expr p t f d c (SStruct tyname case fields spread) = Ok e ->
  resolve p t tyname = Some (SymType td) ->
  exists ctor decl fs,
    index_of (fun cs => bool_decide (fst cs = from_option id "Default"%string case)) (td_cases td) = Some ctor /\
    option_map snd (find (fun cs => bool_decide (fst cs = from_option id "Default"%string case)) (td_cases td)) = Some decl /\
    e = EStruct (N.of_nat ctor) fs /\ length fs = length decl.
Proof. exact struct_lowers_to_named_case. Qed.

Print Assumptions C09_decode_encode.
Print Assumptions C09_int_any_size.
Print Assumptions C09_bytes_any_length.
Print Assumptions C09_constr_tags.
Print Assumptions C09_fields_in_declaration_order.
Print Assumptions C09_map_entries_in_order.
Print Assumptions C09_list_elements_in_order.
Print Assumptions C09_constructor_is_named_case.
