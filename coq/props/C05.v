(** Property C05 — the fee written in the body is the fee reported and covers the final size. *)
From Tx3 Require Import Base Loop Loop_proofs Loop_errors.

(** whatever the loop returns was priced by the linear formula on its own payload length *)
Theorem C05_fee_formula : forall a b m S build n st last r st' e,
  formula_ok a b m last -> resolve_loop a b m S build n st last = Ok (Some r, st', e) ->
  c_fee r = (a * c_len r + b + m)%N.
Proof. exact resolve_loop_formula. Qed.
(** when the loop exits because a pass repeated its predecessor, the returned transaction
    carries in its body exactly the fee reported (for every pass function, parameter setting
    and prior compiler state) *)
Theorem C05_converged_fixed_point : forall a b m S build n st last r st',
  pid_determines_fee S build -> (forall l, last = Some l -> produced S build l) ->
  resolve_loop a b m S build n st last = Ok (Some r, st', true) -> c_body_fee r = c_fee r.
Proof. exact converged_body_fee. Qed.
Theorem C05_passes_bounded : forall a b m S build n st last,
  (passes_run a b m S build n st last <= n)%nat.
Proof. exact passes_bounded. Qed.
(** the full statement (every returned transaction is a fixed point) is false of the loop:
    a size function that oscillates with the fee makes it stop on the round cap (finding F05-1) *)
Theorem C05_round_cap_refuted :
  exists r st e, resolve 1 0 0 unit osc_build tt 3 tt = Ok (Some r, st, e) /\ e = false /\ c_body_fee r <> c_fee r.
Proof. exact resolve_fixed_point_refuted. Qed.

(** a pass that fails, fails the resolution: whenever a pass the loop executes - the first or a
    later one - ends in an error, a panic or an overflow, the loop answers with exactly that
    failure; a transaction built by an earlier pass (priced with an older fee) is never handed
    back in its place *)
Theorem C05_failing_pass_fails_resolution : forall a b m S build n st last x,
  pass_fails a b m S build n st last x -> same_failure x (resolve_loop a b m S build n st last).
Proof. exact failing_pass_fails_resolution. Qed.
Theorem C05_failing_pass_no_transaction : forall a b m S build n st last x r,
  pass_fails a b m S build n st last x -> resolve_loop a b m S build n st last <> Ok r.
Proof. exact failing_pass_no_transaction. Qed.

Print Assumptions C05_fee_formula.
Print Assumptions C05_converged_fixed_point.
Print Assumptions C05_passes_bounded.
Print Assumptions C05_round_cap_refuted.
Print Assumptions C05_failing_pass_fails_resolution.
Print Assumptions C05_failing_pass_no_transaction.
