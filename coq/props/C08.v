(** Property C08 — redeemers are attached to the item they were written for. *)
From stdpp Require Import sorting.
From Tx3 Require Import Base Tir Reduce PlutusData Compile Compile_proofs Compile_sorted Compile_redeemers Compile_accounts.

(** the list the spend index is taken from is a permutation of the body inputs ... *)
Theorem C08_sorted_inputs_perm : forall l, sort_refs l ≡ₚ l.
Proof. exact sort_refs_perm. Qed.
(** ... and the index found is that of the first (hence the only) matching item *)
Theorem C08_index_points_at_item : forall (A : Type) (p : A -> bool) l k,
  position p l = Some k ->
  exists x, nth_error l k = Some x /\ p x = true /\
            forall j y, (j < k)%nat -> nth_error l j = Some y -> p y = false.
Proof. intros A. exact (@position_spec A). Qed.
(** the order on transaction ids / policy ids / reward accounts is a strict total order *)
Theorem C08_order_strict_total :
  (forall a, bytes_ltb a a = false) /\
  (forall a b, bytes_ltb a b = true -> bytes_ltb b a = false) /\
  (forall a b c, bytes_ltb a b = true -> bytes_ltb b c = true -> bytes_ltb a c = true) /\
  (forall a b, bytes_ltb a b = false -> bytes_ltb b a = false -> a = b).
Proof. exact (conj bytes_ltb_irrefl (conj bytes_ltb_asym (conj bytes_ltb_trans bytes_ltb_total))). Qed.

(** that list is in the ledger's order: ascending by (transaction id, output index) *)
Theorem C08_sorted_inputs_sorted : forall l, StronglySorted ref_le (sort_refs l).
Proof. exact sort_refs_sorted. Qed.
(** and in such a list the position of an input is its rank: the number of inputs that precede
    it in the ledger's order - the index the ledger will use for it *)
Theorem C08_index_is_rank : forall x l k,
  StronglySorted ref_le l -> NoDup l -> position (fun y => bool_decide (y = x)) l = Some k -> k = rank x l.
Proof. exact position_is_rank. Qed.

(** mint and burn redeemers: the index written is the position of the block's own policy in the
    key list of the body's mint field (its first and, the keys being distinct, only occurrence) *)
Theorem C08_mint_redeemer_points_at_policy : forall ms minted rs,
  mint_redeemers ms minted = Ok rs ->
  forall r, r ∈ rs ->
  exists m x xs p p' d k,
    m ∈ ms /\ m_redeemer m <> ENone /\
    expr_into_assets (m_amount m) = Ok (x :: xs) /\ expr_into_bytes (fst (fst x)) = Ok p /\ hash_from 28 p = Ok p' /\
    nth_error (map fst (from_option id [] minted)) k = Some p' /\
    (forall j y, (j < k)%nat -> nth_error (map fst (from_option id [] minted)) j = Some y -> y <> p') /\
    encode_redeemer (m_redeemer m) = Ok d /\ r = mk_ared 1 (Z.of_nat k) d.
Proof. exact mint_redeemers_point_at_policy. Qed.
(** ... and a block whose policy has left the body (mint and burn cancelled) is refused rather
    than given a neighbour's index *)
Theorem C08_mint_redeemer_needs_policy : forall ms minted m x xs p p',
  m ∈ ms -> m_redeemer m <> ENone ->
  expr_into_assets (m_amount m) = Ok (x :: xs) -> expr_into_bytes (fst (fst x)) = Ok p -> hash_from 28 p = Ok p' ->
  p' ∉ map fst (from_option id [] minted) ->
  forall rs, mint_redeemers ms minted <> Ok rs.
Proof. exact mint_redeemer_needs_policy. Qed.

(** the list a Reward redeemer is looked up in is ascending in the ledger's order of reward
    accounts (network, script credentials before key credentials, hash), and the index found for
    an account is its rank in that order (finding F08-4, repaired: the accounts were ranked by
    their bytes, which puts key credentials first) *)
Theorem C08_reward_accounts_sorted : forall l, Forall wf_acct l -> StronglySorted (le_by acct_ltb) (sort_accts l).
Proof. exact sort_accts_sorted. Qed.
Theorem C08_reward_index_is_ledger_rank : forall l x k, Forall wf_acct l ->
  position (fun y => bool_decide (y = x)) (sort_accts l) = Some k -> k = rank_by acct_ltb x l.
Proof. exact reward_index_is_ledger_rank. Qed.

(** every Reward redeemer of the witness set comes from a withdrawal directive with a redeemer,
    carries that redeemer's data, and its index is the rank of the directive's own account in the
    ledger's order of the body's reward accounts *)
Theorem C08_reward_redeemers_point_at_account : forall mainnet addr_parse addr_of_string reward_of_addr t ws rs,
  Forall wf_acct (map fst (from_option id [] ws)) ->
  withdrawal_redeemers mainnet addr_parse addr_of_string reward_of_addr t ws = Ok rs ->
  forall r, r ∈ rs ->
  exists a red c cred d,
    a ∈ withdrawal_directives t /\ data_get "redeemer" (ad_data a) = Some red /\ red <> ENone /\
    data_get "credential" (ad_data a) = Some c /\ reward_account_of mainnet addr_parse addr_of_string reward_of_addr c = Ok cred /\
    encode_redeemer red = Ok d /\
    r = mk_ared 3 (Z.of_nat (rank_by acct_ltb cred (map fst (from_option id [] ws)))) d.
Proof. exact withdrawal_redeemers_point_at_account. Qed.

(** outputs of one transaction are ranked by the number of their index: output 2 comes before
    output 10 of the same transaction, in whatever order the template names them *)
Theorem C08_same_transaction_ranks_by_index_number : forall t i j,
  ref_ltb (t, i) (t, j) = (i <? j)%Z /\ ((i < j)%Z -> sort_refs [(t, j); (t, i)] = [(t, i); (t, j)]).
Proof. intros t i j. exact (conj (ref_ltb_same_tx t i j) (sort_refs_same_tx_pair t i j)). Qed.

Print Assumptions C08_sorted_inputs_sorted.
Print Assumptions C08_index_is_rank.
Print Assumptions C08_sorted_inputs_perm.
Print Assumptions C08_index_points_at_item.
Print Assumptions C08_order_strict_total.
Print Assumptions C08_mint_redeemer_points_at_policy.
Print Assumptions C08_mint_redeemer_needs_policy.
Print Assumptions C08_reward_accounts_sorted.
Print Assumptions C08_reward_index_is_ledger_rank.
Print Assumptions C08_reward_redeemers_point_at_account.
Print Assumptions C08_same_transaction_ranks_by_index_number.
