(** Property C08 — redeemers are attached to the item they were written for. *)
From stdpp Require Import sorting.
From Tx3 Require Import Base Tir Reduce PlutusData Compile Compile_proofs Compile_sorted.

(** the list the spend index is taken from is a permutation of the body inputs ... *)
Theorem C08_sorted_inputs_perm : forall l, sort_refs l ≡ₚ l.
Proof. exact sort_refs_perm. Qed.
(** ... and the index found is that of the first (hence the only) matching item *)
Theorem C08_index_points_at_item : forall (A : Type) (p : A -> bool) l k,
  position p l = Some k ->
  exists x, nth_error l k = Some x /\ p x = true /\
            forall j y, (j < k)%nat -> nth_error l j = Some y -> p y = false.
Proof. intros A. exact (@position_spec A). Qed.
(** the order on transaction ids / policy ids / reward accounts is a strict total order *)
Theorem C08_order_strict_total :
  (forall a, bytes_ltb a a = false) /\
  (forall a b, bytes_ltb a b = true -> bytes_ltb b a = false) /\
  (forall a b c, bytes_ltb a b = true -> bytes_ltb b c = true -> bytes_ltb a c = true) /\
  (forall a b, bytes_ltb a b = false -> bytes_ltb b a = false -> a = b).
Proof. exact (conj bytes_ltb_irrefl (conj bytes_ltb_asym (conj bytes_ltb_trans bytes_ltb_total))). Qed.

(** that list is in the ledger's order: ascending by (transaction id, output index) *)
Theorem C08_sorted_inputs_sorted : forall l, StronglySorted ref_le (sort_refs l).
Proof. exact sort_refs_sorted. Qed.
(** and in such a list the position of an input is its rank: the number of inputs that precede
    it in the ledger's order - the index the ledger will use for it *)
Theorem C08_index_is_rank : forall x l k,
  StronglySorted ref_le l -> NoDup l -> position (fun y => bool_decide (y = x)) l = Some k -> k = rank x l.
Proof. exact position_is_rank. Qed.

Print Assumptions C08_sorted_inputs_sorted.
Print Assumptions C08_index_is_rank.
Print Assumptions C08_sorted_inputs_perm.
Print Assumptions C08_index_points_at_item.
Print Assumptions C08_order_strict_total.
