(** Property C13 — a program the analyzer accepts can always be lowered. *)
From Tx3 Require Import Base Tir Surface Lower Analyze Lower_proofs Analyze_names.

(** every transaction of a program the (modelled) analyzer accepts lowers to an IR *)
Theorem C13_accepted_programs_lower : forall p,
  analyze_ok p = true -> forall t, t ∈ sp_txs p -> exists ir, lower_tx p t = Ok ir.
Proof. exact accepted_programs_lower. Qed.

(** expression level, at any resolution depth: an accepted expression whose identifiers are
    resolved as deeply as lowering follows them never fails or panics *)
Theorem C13_accepted_expressions_lower : forall p t,
  program_ok p = true ->
  forallb (fun l => expr_ok p t (snd l)) (st_locals t) = true ->
  forallb (fun i => opt_ok p t (in_from i) && opt_ok p t (in_min i) && opt_ok p t (in_ref i) && opt_ok p t (in_redeemer i)) (st_inputs t) = true ->
  forall fuel d c e, expr_ok p t e = true -> deep p t fuel d e = true -> exists ir, lower_expr p t fuel d c e = Ok ir.
Proof. exact lower_expr_total. Qed.

(** the static type used for property access does not depend on the resolution depth *)
Theorem C13_static_type_stable : forall p t fuel d e,
  deep p t fuel d e = true -> target_type p t d e = target_type p t ldepth e.
Proof. exact target_type_deep. Qed.

(** non-vacuity: a program with a record constructor using a spread, a local chain and a
    property access is accepted by the model, and lowers *)
Definition c13_example : sprogram :=
  mk_sprogram [] ["Sender"%string] [] []
    [mk_stypedef "State" [("Default"%string, [("count"%string, SInt); ("owner"%string, SBytes)])]]
    [mk_stx "t" [("q"%string, SInt); ("s"%string, SCustom "State")]
       [("a"%string, SAddE (SId "b") (SNum 1)); ("b"%string, SPropE (SId "s") "count")]
       []
       [mk_sinput "src" false (Some (SId "Sender")) (Some (SCall "Ada" [SId "a"])) None None (Some (SCustom "State"))]
       []
       [mk_soutput None false (Some (SId "Sender")) (Some (SSubE (SId "src") (SId "fees")))
                   (Some (SStruct "State" None [("count"%string, SId "a")] (Some (SId "src"))))]
       [] [] None None None []].
Example C13_example_accepted : analyze_ok c13_example = true /\ is_ok (lower c13_example "t") = true.
Proof. split; vm_compute; reflexivity. Qed.

(** in an accepted program the index of a variant constructor and the field list it is matched
    against belong to one declaration of the type, and two cases never share an index
    (finding F09-3, repaired: two cases of one name were accepted) *)
Theorem C13_case_lookup_unambiguous : forall p td cname decl,
  analyze_ok p = true -> td ∈ sp_types p -> (cname, decl) ∈ td_cases td ->
  find (fun cs => bool_decide (fst cs = cname)) (td_cases td) = Some (cname, decl)
  /\ exists i, index_of (fun cs => bool_decide (fst cs = cname)) (td_cases td) = Some i
               /\ td_cases td !! i = Some (cname, decl).
Proof. exact case_lookup_unambiguous. Qed.
Theorem C13_case_indexes_distinct : forall p td c1 c2 i,
  analyze_ok p = true -> td ∈ sp_types p ->
  index_of (fun cs => bool_decide (fst cs = c1)) (td_cases td) = Some i ->
  index_of (fun cs => bool_decide (fst cs = c2)) (td_cases td) = Some i -> c1 = c2.
Proof. exact case_indexes_distinct. Qed.

Print Assumptions C13_accepted_programs_lower.
Print Assumptions C13_accepted_expressions_lower.
Print Assumptions C13_static_type_stable.
Print Assumptions C13_case_lookup_unambiguous.
Print Assumptions C13_case_indexes_distinct.
