(** Property C11 — the TIR wire format round-trips. *)
From Tx3 Require Import Base Tir Reduce PlutusData Serde Serde_proofs Serde_back Serde_tx.

(** ciborium's encoding of the data model is inverted by the decoder, for every value *)
Theorem C11_decode_encode : forall v, ok_cval v = true ->
  forall f rest, (csize v <= f)%nat -> decode_cval f (encode_cval v ++ rest) = Some (v, rest).
Proof. exact decode_encode_cval. Qed.
(** hence the bytes of any transaction IR decode back to exactly the laid-out value *)
Theorem C11_wire_roundtrip : forall t, ok_cval (tx_cval t) = true ->
  decode_cval (csize (tx_cval t)) (to_bytes t) = Some (tx_cval t, []).
Proof. exact wire_roundtrip. Qed.
(** the layout tells the constructors apart: equal outer names, equal constructor *)
Theorem C11_layout_distinguishes_constructors : forall e1 e2, outer_names e1 = outer_names e2 -> ctor_id e1 = ctor_id e2.
Proof. exact ctor_of_names. Qed.

(** the way back (what Deserialize does): reading the laid-out value of any expression whose byte
    strings are byte strings returns that expression - directive fields in key order, since the
    IR keeps them in an unordered map - so the layout loses nothing and confuses nothing *)
Theorem C11_expression_roundtrip : forall e, wf_e e = true ->
  exists f0, forall f, (f0 <= f)%nat -> of_cval f (to_cval e) = Some (norm e).
Proof. exact of_cval_to_cval. Qed.

(** and from the bytes: decoding the encoding of an expression and reading the value back gives
    the expression, consuming exactly the bytes written *)
Theorem C11_wire_expression_roundtrip : forall e, wf_e e = true -> ok_cval (to_cval e) = true ->
  exists f0, forall f, (f0 <= f)%nat ->
    match decode_cval f (encode_cval (to_cval e)) with
    | Some (v, rest) => rest = [] /\ of_cval f v = Some (norm e)
    | None => False
    end.
Proof. exact wire_expression_roundtrip. Qed.

(** the same for a whole transaction: every block, the optional validity and signers, the
    directives (fields in key order), from the bytes back to the transaction *)
Theorem C11_transaction_roundtrip : forall t, tx_wf t = true ->
  exists f0, forall f, (f0 <= f)%nat -> of_tx f (tx_cval t) = Some (tx_norm t).
Proof. exact of_tx_tx_cval. Qed.
Theorem C11_wire_transaction_roundtrip : forall t, tx_wf t = true -> ok_cval (tx_cval t) = true ->
  exists f0, forall f, (f0 <= f)%nat ->
    match decode_cval f (to_bytes t) with
    | Some (v, rest) => rest = [] /\ of_tx f v = Some (tx_norm t)
    | None => False
    end.
Proof. exact wire_tx_roundtrip. Qed.

Print Assumptions C11_wire_expression_roundtrip.
Print Assumptions C11_expression_roundtrip.
Print Assumptions C11_decode_encode.
Print Assumptions C11_wire_roundtrip.
Print Assumptions C11_layout_distinguishes_constructors.
Print Assumptions C11_transaction_roundtrip.
Print Assumptions C11_wire_transaction_roundtrip.
