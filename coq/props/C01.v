(** Property C01 — the compiled transaction is exactly what the template denotes. *)
From Tx3 Require Import Base Assets Tir Reduce Surface Lower Denote C01_proofs.

(** closed integer arithmetic (literals, +, -, unary !, of any shape and nesting): lowering the
    source tree and reducing the IR yields exactly the integer the independent semantics
    (Denote.eval, over Z) assigns to it, whenever the intermediate results are representable;
    nothing is re-associated *)
Theorem C01_integer_arithmetic_exact : forall p t env pick f d c e v,
  ival e = Some v -> (sdepth e <= f)%nat ->
  exists ir, lower_expr p t f d c e = Ok ir /\ reduce pick f ir = Ok (ENumber v) /\ eval p t env f c e = Some (VInt v).
Proof. exact int_pipeline_is_denotation. Qed.

(** a - b - c is (a - b) - c *)
Theorem C01_subtraction_associates_left :
  ival (SSubE (SSubE (SNum 10) (SNum 4)) (SNum 3)) = Some 3%Z /\ ival (SSubE (SNum 10) (SSubE (SNum 4) (SNum 3))) = Some 9%Z.
Proof. exact sub_chain_left. Qed.

Print Assumptions C01_integer_arithmetic_exact.
Print Assumptions C01_subtraction_associates_left.
