(** Property C01 — the compiled transaction is exactly what the template denotes. *)
From Tx3 Require Import Base Assets Assets_proofs Tir Reduce Surface Lower Denote C01_proofs C01_args C01_assets.

(** closed integer arithmetic (literals, +, -, unary !, of any shape and nesting): lowering the
    source tree and reducing the IR yields exactly the integer the independent semantics
    (Denote.eval, over Z) assigns to it, whenever the intermediate results are representable;
    nothing is re-associated *)
Theorem C01_integer_arithmetic_exact : forall p t env pick f d c e v,
  ival e = Some v -> (sdepth e <= f)%nat ->
  exists ir, lower_expr p t f d c e = Ok ir /\ reduce pick f ir = Ok (ENumber v) /\ eval p t env f c e = Some (VInt v).
Proof. exact int_pipeline_is_denotation. Qed.

(** a - b - c is (a - b) - c *)
Theorem C01_subtraction_associates_left :
  ival (SSubE (SSubE (SNum 10) (SNum 4)) (SNum 3)) = Some 3%Z /\ ival (SSubE (SNum 10) (SSubE (SNum 4) (SNum 3))) = Some 9%Z.
Proof. exact sub_chain_left. Qed.

(** the same with integer parameters: for every choice of integer arguments, lower + apply the
    arguments + reduce = the semantics' value under those arguments *)
Theorem C01_integer_parameters_exact : forall p t args env pick f d c e v,
  de_args env = args -> pval p t args e = Some v -> (sdepth e <= f)%nat ->
  exists ir, lower_expr p t f (S d) c e = Ok ir
             /\ reduce pick f (apply_args args ir) = Ok (ENumber v)
             /\ eval p t env f c e = Some (VInt v).
Proof. exact int_params_pipeline_is_denotation. Qed.

(** multi-asset amounts: for closed amount expressions over asset constructors (Ada, declared
    assets), +, - and unary !, whose intermediate amounts are representable, lowering followed
    by reduction yields a constant asset list that reads back - class by class - as exactly the
    multi-asset value the semantics assigns *)
Theorem C01_multi_asset_arithmetic_exact : forall p t e a, aden p t e a -> forall pick f d c, (adepth e <= f)%nat ->
  exists ir, lower_expr p t f (S d) c e = Ok ir /\
  exists xs a', reduce pick f ir = Ok (EAssets xs) /\ is_constant (EAssets xs) = true /\ expr_assets xs = Ok a' /\ a' ≈ a.
Proof. intros p t e a H pick f d c Hf. destruct (assets_pipeline p t e a H pick f d c Hf) as [ir [Hl Hg]]. exists ir. split; [exact Hl|exact Hg]. Qed.

Theorem C01_multi_asset_denotation : forall p t e a, aden p t e a -> forall env f c, (adepth e <= f)%nat ->
  eval p t env f c e = Some (VAssets a).
Proof. exact assets_denotation. Qed.

(** non-vacuity: Ada(5) + Tok(7) - Ada(2) is in the fragment *)
Example C01_assets_example :
  let p := mk_sprogram [] [] [] [("Tok"%string, SHex [1;2;3]%N, SStr [84]%N)] [] [] in
  let t := mk_stx "t" [] [] [] [] [] [] [] [] None None None [] in
  exists a, aden p t (SSubE (SAddE (SCall "Ada" [SNum 5]) (SCall "Tok" [SNum 7])) (SCall "Ada" [SNum 2])) a /\ get0 a Naked = 3%Z.
Proof.
  cbv zeta. eexists. split.
  - eapply AD_sub; [eapply AD_add; [eapply AD_call with (pb := []) (nb := []) | eapply AD_call with (pb := [1;2;3]%N) (nb := [84]%N) | ]| eapply AD_call with (pb := []) (nb := []) | | ];
      try reflexivity; try (repeat split; discriminate);
      intros k; rewrite ?get0_add, ?get0_singleton; repeat (destruct (decide _)); reflexivity.
  - vm_compute. reflexivity.
Qed.

Print Assumptions C01_integer_parameters_exact.
Print Assumptions C01_multi_asset_arithmetic_exact.
Print Assumptions C01_multi_asset_denotation.
Print Assumptions C01_integer_arithmetic_exact.
Print Assumptions C01_subtraction_associates_left.
