(** Property C10 — emitted transactions are well-formed and self-consistent (structural part). *)
From Tx3 Require Import Base Tir Reduce PlutusData Compile Compile_proofs Compile_reds Compile_sets.
From stdpp Require Import sorting.

Theorem C10_hash_fields_presence : forall mainnet ap aos kh rw ns cm t a,
  compile_tx mainnet ap aos kh rw ns cm t = Ok a ->
  a_has_aux_hash a = (match a_metadata a with Some _ => true | None => false end) /\
  a_has_script_data_hash a = (match a_redeemers a with Some _ => true | None => false end) /\
  a_network a = (if mainnet then 1%N else 0%N).
Proof. exact hash_fields_presence. Qed.
Theorem C10_no_empty_multiasset : forall safe_add items m, aggregate_assets safe_add items = Some m -> m <> [].
Proof. exact aggregate_assets_nonempty. Qed.

(** the redeemers of the witness set are strictly ascending by (purpose, index): the ledger's
    map order, one redeemer per purpose and item *)
Theorem C10_redeemers_strictly_sorted : forall rs,
  StronglySorted red_lt (fold_left (fun acc r => red_put r acc) rs []).
Proof. exact redeemers_strictly_sorted. Qed.
Theorem C10_redeemer_keys_distinct : forall rs,
  NoDup (map (fun r => (rd_tag r, rd_index r)) (fold_left (fun acc r => red_put r acc) rs [])).
Proof. exact redeemers_keys_distinct. Qed.

(** reference inputs, collateral inputs and required signers are listed once each, whatever the
    template repeats (finding F10-4, repaired: a reference named by two blocks was listed twice) *)
Theorem C10_set_fields_distinct : forall mainnet addr_parse addr_of_string keyhash_of_addr reward_of_addr native_script_ok has_cost_model t a,
  compile_tx mainnet addr_parse addr_of_string keyhash_of_addr reward_of_addr native_script_ok has_cost_model t = Ok a ->
  opt_NoDup (a_refs a) /\ opt_NoDup (a_collateral a) /\ opt_NoDup (a_signers a).
Proof. exact set_fields_distinct. Qed.
(** ... and a list that repeats nothing keeps its order *)
Theorem C10_distinct_keeps_order : forall (l : list (bytes * Z)), NoDup l -> distinct l = l.
Proof. exact distinct_id. Qed.

Print Assumptions C10_hash_fields_presence.
Print Assumptions C10_no_empty_multiasset.
Print Assumptions C10_redeemers_strictly_sorted.
Print Assumptions C10_redeemer_keys_distinct.
Print Assumptions C10_set_fields_distinct.
Print Assumptions C10_distinct_keeps_order.
