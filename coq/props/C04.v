(** Property C04 — a transaction never spends one UTxO through two input blocks. *)
From Tx3 Require Import Base Assets Select Select_proofs Select_flat.

Theorem C04_selections_disjoint : forall st bs out,
  resolve_inputs st bs = Ok out -> chain_disjoint (regular_sels bs out).
Proof. exact selections_disjoint. Qed.
Theorem C04_ignore_invariant : forall st bs sel out,
  resolve_blocks st sel bs = Ok out ->
  length out = length bs /\
  (forall x a, x ∈ regular_sels bs out -> a ∈ x -> a ∉ ign_input sel) /\
  chain_disjoint (regular_sels bs out).
Proof. intros st bs sel out. exact (resolve_blocks_disjoint st bs sel out). Qed.
Theorem C04_no_reuse_fails : forall st bs out,
  resolve_inputs st bs = Ok out -> length out = length bs /\ forall ns, ns ∈ out -> ns.2 <> [].
Proof. exact no_reuse_fails. Qed.
(** the body's input list is the concatenation of the regular blocks' selections: it holds every
    reference once (the order oracle of each block lists no reference twice) *)
Theorem C04_flattened_inputs_distinct : forall st bs out,
  (forall b, b ∈ bs -> NoDup (o_sorted b.2)) ->
  resolve_inputs st bs = Ok out -> NoDup (concat (regular_sels bs out)).
Proof. exact flattened_inputs_distinct. Qed.

Print Assumptions C04_selections_disjoint.
Print Assumptions C04_ignore_invariant.
Print Assumptions C04_no_reuse_fails.
Print Assumptions C04_flattened_inputs_distinct.
