(** Property C15 — multi-asset values obey the algebra that balance computations assume.
    Nothing but statements closed by [exact] and their assumptions. *)
From Tx3 Require Import Base Assets Assets_proofs Assets_wf.

Theorem C15_add_comm : forall a b, a_add a b ≈ a_add b a.
Proof. exact add_comm. Qed.
Theorem C15_add_assoc : forall a b c, a_add (a_add a b) c ≈ a_add a (a_add b c).
Proof. exact add_assoc. Qed.
Theorem C15_add_empty : forall a, a_add a_empty a ≈ a /\ a_add a a_empty ≈ a.
Proof. intros a. split; [exact (add_empty_l a) | exact (add_empty_r a)]. Qed.
Theorem C15_sub_def : forall a b, a_sub a b ≈ a_add a (a_neg b).
Proof. exact sub_def. Qed.
Theorem C15_sub_add_cancel : forall a b, a_add (a_sub a b) b ≈ a.
Proof. exact sub_add_cancel. Qed.
Theorem C15_inverse : forall a, a_add a (a_neg a) ≈ a_empty.
Proof. exact add_neg_inverse. Qed.
Theorem C15_neg_involutive : forall a, a_neg (a_neg a) ≈ a.
Proof. exact neg_involutive. Qed.
(** equality of the implementation is exactly semantic equality *)
Theorem C15_eq_semantic : forall a b, eq_impl a b = true <-> a ≈ b.
Proof. exact eq_impl_semantic. Qed.
(** zero entries are immaterial to every operation and observer *)
Theorem C15_congruence :
  Proper (aequiv ==> aequiv ==> aequiv) a_add /\ Proper (aequiv ==> aequiv ==> aequiv) a_sub /\
  Proper (aequiv ==> aequiv) a_neg /\ Proper (aequiv ==> aequiv ==> eq) contains_total /\
  Proper (aequiv ==> aequiv ==> eq) contains_some /\ Proper (aequiv ==> eq) a_is_empty /\
  Proper (aequiv ==> eq) is_empty_or_negative /\ Proper (aequiv ==> aequiv ==> eq) eq_impl.
Proof.
  exact (conj a_add_proper (conj a_sub_proper (conj a_neg_proper (conj contains_total_proper
        (conj contains_some_proper (conj a_is_empty_proper (conj is_empty_or_negative_proper eq_impl_proper))))))).
Qed.
(** contains is the component-wise >= order on non-negative amounts *)
Theorem C15_contains_order : forall self other, nonneg self -> nonneg other ->
  (contains_total self other = true <-> forall k, get0 other k <= get0 self k).
Proof. exact contains_total_spec. Qed.
(** conversion to the IR's asset-expression list and back, for every iteration order *)
Theorem C15_exprs_roundtrip : forall a ord, wf_classes a = true -> ord ≡ₚ map_to_list a ->
  exists a', of_exprs (to_exprs_ord ord) = Ok a' /\ a' ≈ a.
Proof. exact exprs_roundtrip. Qed.
(** ... and without a premise for every value the property quantifies over: built through any
    constructor (from_class_and_amount with a hand-made class and expression lists included) and
    closed under +, - and negation (finding F15-2, repaired: from_class_and_amount kept an empty
    policy or name as given) *)
Theorem C15_built_values_well_formed : forall a, built a -> wf_classes a = true.
Proof. exact built_wf. Qed.
Theorem C15_exprs_roundtrip_built : forall a ord, built a -> ord ≡ₚ map_to_list a ->
  exists a', of_exprs (to_exprs_ord ord) = Ok a' /\ a' ≈ a.
Proof. exact exprs_roundtrip_built. Qed.
(** the structural `==` of the pinned tree (finding F15-1, repaired) was not semantic *)
Theorem C15_struct_eq_refuted : exists a b, a ≈ b /\ eq_struct a b = false.
Proof. exact eq_struct_semantic_refuted. Qed.

Check C15_add_comm : forall a b, a_add a b ≈ a_add b a.
Check C15_eq_semantic : forall a b, eq_impl a b = true <-> a ≈ b.

Print Assumptions C15_add_comm.
Print Assumptions C15_add_assoc.
Print Assumptions C15_add_empty.
Print Assumptions C15_sub_def.
Print Assumptions C15_sub_add_cancel.
Print Assumptions C15_inverse.
Print Assumptions C15_neg_involutive.
Print Assumptions C15_eq_semantic.
Print Assumptions C15_congruence.
Print Assumptions C15_contains_order.
Print Assumptions C15_exprs_roundtrip.
Print Assumptions C15_built_values_well_formed.
Print Assumptions C15_exprs_roundtrip_built.
Print Assumptions C15_struct_eq_refuted.
