(** Property C16 — JSON arguments are coerced faithfully and safely at the service boundary. *)
From Tx3 Require Import Base Assets Select Tir Interop Interop_proofs Interop_refs Interop_assemble.
Local Open Scope string_scope.

Theorem C16_int_dec : forall b64 b32 z, in_i128 z = true ->
  from_json b64 b32 (JStr (dec_string z)) TInt = Ok (ArgInt z).
Proof. exact int_dec_roundtrip. Qed.
Theorem C16_int_number : forall b64 b32 z, from_json b64 b32 (JNum z) TInt = Ok (ArgInt z).
Proof. exact int_number_roundtrip. Qed.
Theorem C16_int_hex16 : forall b64 b32 z, in_i128 z = true ->
  from_json b64 b32 (JStr ("0x" ++ hex_encode (twos16 z))) TInt = Ok (ArgInt z).
Proof. exact int_hex_roundtrip. Qed.
Theorem C16_int_out_of_range_rejected : forall b64 b32 z, in_i128 z = false ->
  from_json b64 b32 (JStr (dec_string z)) TInt = Err "InvalidBytesForNumber".
Proof. exact int_dec_out_of_range. Qed.
Theorem C16_bool : forall b64 b32 b,
  from_json b64 b32 (JBool b) TBool = Ok (ArgBool b) /\
  from_json b64 b32 (JNum (if b then 1 else 0)) TBool = Ok (ArgBool b) /\
  from_json b64 b32 (JStr (if b then "true" else "false")) TBool = Ok (ArgBool b).
Proof. exact bool_roundtrip. Qed.
Theorem C16_bytes_hex : forall b64 b32 b, wf_bytes b = true ->
  from_json b64 b32 (JStr (hex_encode b)) TBytes = Ok (ArgBytes b) /\
  from_json b64 b32 (JStr ("0x" ++ hex_encode b)) TBytes = Ok (ArgBytes b).
Proof. exact bytes_hex_roundtrip. Qed.
Theorem C16_bytes_envelope_hex : forall b64 b32 b, wf_bytes b = true ->
  from_json b64 b32 (JObj [("content", JStr (hex_encode b)); ("contentType", JStr "hex")]) TBytes = Ok (ArgBytes b).
Proof. exact bytes_envelope_hex_roundtrip. Qed.
Theorem C16_bytes_envelope_base64 : forall b64 b32 b s, b64 s = Some b ->
  from_json b64 b32 (JObj [("content", JStr s); ("contentType", JStr "base64")]) TBytes = Ok (ArgBytes b).
Proof. exact bytes_envelope_base64_roundtrip. Qed.
Theorem C16_odd_hex_rejected : forall b64 b32 b c, wf_bytes b = true -> hex_val c <> None ->
  from_json b64 b32 (JStr (hex_encode b ++ String c EmptyString)) TBytes = Err "InvalidHex".
Proof. exact bytes_odd_hex_rejected. Qed.
(** the assembled argument map holds declared parameters only *)
Theorem C16_request_declared_only : forall b64 b32 params args env out,
  assemble b64 b32 params args env = Ok out ->
  forall k, is_Some (lookup_s k out) -> is_Some (lookup_s k params).
Proof. exact assemble_declared. Qed.

(** ... and holds, for every key, the coerced value that `args` supplies, or else the one `env`
    supplies: `args` takes precedence, nothing is dropped *)
Theorem C16_request_args_then_env : forall b64 b32 params args env out,
  assemble b64 b32 params args env = Ok out ->
  forall k, lookup_s k out = match supplied b64 b32 params args k with
                             | Some a => Some a
                             | None => supplied b64 b32 params env k
                             end.
Proof. exact assemble_args_then_env. Qed.
Theorem C16_request_args_win : forall b64 b32 params args env out k v t,
  assemble b64 b32 params args env = Ok out ->
  lookup_s k args = Some v -> lookup_s k params = Some t ->
  exists a, from_json b64 b32 v t = Ok a /\ lookup_s k out = Some a.
Proof. exact assemble_args_win. Qed.
(** a UTxO reference "hex(txid)#index" is read back exactly, for a transaction id of any
    length and every 32-bit index; an index beyond 32 bits is refused, not truncated *)
Theorem C16_utxo_ref : forall txid idx, wf_bytes txid = true -> (idx < 2 ^ 32)%N ->
  value_to_utxo_ref (JStr (hex_encode txid ++ String "#"%char (dec_string (Z.of_N idx)))) = Ok (mk_ref txid idx).
Proof. exact utxo_ref_roundtrip. Qed.
Theorem C16_utxo_ref_index_out_of_range : forall txid idx, wf_bytes txid = true -> (2 ^ 32 <= idx)%N ->
  value_to_utxo_ref (JStr (hex_encode txid ++ String "#"%char (dec_string (Z.of_N idx)))) = Err "InvalidUtxoRef".
Proof. exact utxo_ref_index_out_of_range. Qed.

Print Assumptions C16_int_dec.
Print Assumptions C16_int_number.
Print Assumptions C16_int_hex16.
Print Assumptions C16_int_out_of_range_rejected.
Print Assumptions C16_bool.
Print Assumptions C16_bytes_hex.
Print Assumptions C16_bytes_envelope_hex.
Print Assumptions C16_bytes_envelope_base64.
Print Assumptions C16_odd_hex_rejected.
Print Assumptions C16_request_declared_only.
Print Assumptions C16_utxo_ref.
Print Assumptions C16_utxo_ref_index_out_of_range.
Print Assumptions C16_request_args_then_env.
Print Assumptions C16_request_args_win.
