(** Property C16 — JSON arguments are coerced faithfully and safely at the service boundary. *)
From Tx3 Require Import Base Tir Interop Interop_proofs.
Local Open Scope string_scope.

Theorem C16_int_dec : forall b64 b32 z, in_i128 z = true ->
  from_json b64 b32 (JStr (dec_string z)) TInt = Ok (ArgInt z).
Proof. exact int_dec_roundtrip. Qed.
Theorem C16_int_number : forall b64 b32 z, from_json b64 b32 (JNum z) TInt = Ok (ArgInt z).
Proof. exact int_number_roundtrip. Qed.
Theorem C16_int_hex16 : forall b64 b32 z, in_i128 z = true ->
  from_json b64 b32 (JStr ("0x" ++ hex_encode (twos16 z))) TInt = Ok (ArgInt z).
Proof. exact int_hex_roundtrip. Qed.
Theorem C16_int_out_of_range_rejected : forall b64 b32 z, in_i128 z = false ->
  from_json b64 b32 (JStr (dec_string z)) TInt = Err "InvalidBytesForNumber".
Proof. exact int_dec_out_of_range. Qed.
Theorem C16_bool : forall b64 b32 b,
  from_json b64 b32 (JBool b) TBool = Ok (ArgBool b) /\
  from_json b64 b32 (JNum (if b then 1 else 0)) TBool = Ok (ArgBool b) /\
  from_json b64 b32 (JStr (if b then "true" else "false")) TBool = Ok (ArgBool b).
Proof. exact bool_roundtrip. Qed.
Theorem C16_bytes_hex : forall b64 b32 b, wf_bytes b = true ->
  from_json b64 b32 (JStr (hex_encode b)) TBytes = Ok (ArgBytes b) /\
  from_json b64 b32 (JStr ("0x" ++ hex_encode b)) TBytes = Ok (ArgBytes b).
Proof. exact bytes_hex_roundtrip. Qed.
Theorem C16_bytes_envelope_hex : forall b64 b32 b, wf_bytes b = true ->
  from_json b64 b32 (JObj [("content", JStr (hex_encode b)); ("contentType", JStr "hex")]) TBytes = Ok (ArgBytes b).
Proof. exact bytes_envelope_hex_roundtrip. Qed.
Theorem C16_bytes_envelope_base64 : forall b64 b32 b s, b64 s = Some b ->
  from_json b64 b32 (JObj [("content", JStr s); ("contentType", JStr "base64")]) TBytes = Ok (ArgBytes b).
Proof. exact bytes_envelope_base64_roundtrip. Qed.
Theorem C16_odd_hex_rejected : forall b64 b32 b c, wf_bytes b = true -> hex_val c <> None ->
  from_json b64 b32 (JStr (hex_encode b ++ String c EmptyString)) TBytes = Err "InvalidHex".
Proof. exact bytes_odd_hex_rejected. Qed.
(** the assembled argument map holds declared parameters only *)
Theorem C16_request_declared_only : forall b64 b32 params args env out,
  assemble b64 b32 params args env = Ok out ->
  forall k, is_Some (lookup_s k out) -> is_Some (lookup_s k params).
Proof. exact assemble_declared. Qed.

Print Assumptions C16_int_dec.
Print Assumptions C16_int_number.
Print Assumptions C16_int_hex16.
Print Assumptions C16_int_out_of_range_rejected.
Print Assumptions C16_bool.
Print Assumptions C16_bytes_hex.
Print Assumptions C16_bytes_envelope_hex.
Print Assumptions C16_bytes_envelope_base64.
Print Assumptions C16_odd_hex_rejected.
Print Assumptions C16_request_declared_only.
