(** Property C20 — resolution does not depend on what the compiler instance compiled before. *)
From Tx3 Require Import Base Loop Loop_proofs.

(** if what a pass builds does not read the instance's state (a template without min_utxo), the
    whole resolution — result and exit — is the same from every prior state, hence after every
    history of earlier resolutions *)
Theorem C20_history_independent : forall a b m S build n,
  (forall s1 s2 f, match build s1 f, build s2 f with
                   | Ok (l1, p1, _), Ok (l2, p2, _) => l1 = l2 /\ p1 = p2
                   | Err _, Err _ | Panic _, Panic _ | Overflow _, Overflow _ => True
                   | _, _ => False
                   end) ->
  forall s1 s2 last,
    match resolve_loop a b m S build n s1 last, resolve_loop a b m S build n s2 last with
    | Ok (r1, _, e1), Ok (r2, _, e2) => r1 = r2 /\ e1 = e2
    | Err _, Err _ | Panic _, Panic _ | Overflow _, Overflow _ => True
    | _, _ => False
    end.
Proof. exact history_independent_no_state_read. Qed.

Print Assumptions C20_history_independent.

(** resolve_tx resets the instance before its first pass (Compiler::reset), so for every template,
    also one that reads the body left behind (min_utxo), the resolution is the same from every
    prior state: after any history of earlier resolutions, whatever their outcome *)
Theorem C20_history_independent_after_reset : forall a b m S build fresh max_rounds (s1 s2 : S),
  resolve a b m S build fresh max_rounds s1 = resolve a b m S build fresh max_rounds s2.
Proof. exact history_independent_after_reset. Qed.

Print Assumptions C20_history_independent_after_reset.
