(** Property C06 — a template closes exactly when its reported parameters and queries are supplied. *)
From Tx3 Require Import Base Tir Reduce Walk Reduce_proofs Reduce_inputs Reduce_queries Reduce_closed.

(** the gate before compilation: a constant template holds no unresolved parameter at any position *)
Theorem C06_constant_closed : forall t, tx_is_constant t = true -> tx_unresolved t = [].
Proof. exact tx_constant_closed. Qed.
(** every unresolved value parameter found by the independent walk is reported *)
Theorem C06_params_complete : forall e n,
  sets_closed e = true -> (UValue, n) ∈ unresolved e -> n ∈ map fst (params e).
Proof. exact params_complete. Qed.
(** ... and every reported one really occurs ("exactly") *)
Theorem C06_params_sound : forall e n, n ∈ map fst (params e) -> (UValue, n) ∈ unresolved e.
Proof. exact params_sound. Qed.
(** every input placeholder found by the independent walk is reported by find_queries, for
    templates whose queries do not themselves contain queries (the shape lowering produces) *)
Theorem C06_queries_complete : forall e n,
  sets_closed e = true -> queries_flat e = true -> (UInput, n) ∈ unresolved e -> n ∈ map fst (queries e).
Proof. exact queries_complete. Qed.
(** substitution closes what it is given an argument for, at every position *)
Theorem C06_apply_args_closes : forall args e n,
  sets_closed e = true -> (UValue, n) ∈ unresolved (apply_args args e) -> n ∉ map fst args.
Proof. exact apply_args_closes. Qed.
Theorem C06_apply_fees_closes : forall fee e,
  sets_closed e = true -> forall n, (UFees, n) ∉ unresolved (apply_fees fee e).
Proof. exact apply_fees_closes. Qed.
(** supplying UTxOs for every reported query leaves no input placeholder, nested queries included *)
Theorem C06_apply_inputs_closes : forall ins e,
  sets_closed e = true -> (forall q, q ∈ map fst (queries e) -> q ∈ map fst ins) ->
  forall n, (UInput, n) ∉ unresolved (apply_inputs ins e).
Proof. exact apply_inputs_closes. Qed.
(** a reported parameter without an argument is refused by name *)
Theorem C06_missing_arg_refused : forall t args k,
  k ∈ map fst (find_params t) -> k ∉ map fst args ->
  exists k', safe_apply_args t args = Err ("MissingTxArg:" ++ k')
             /\ k' ∈ map fst (find_params t) /\ lookup_arg k' args = None.
Proof. exact missing_arg_refused. Qed.
Theorem C06_all_args_accepted : forall t args,
  (forall k, k ∈ map fst (find_params t) -> is_Some (lookup_arg k args)) ->
  safe_apply_args t args = Ok (tx_apply_args args t).
Proof. exact all_args_accepted. Qed.
(** reduce never re-opens a closed template: no parameter, query, fee reference or compiler
    operation reappears, at any fuel and for any set order (the datums of resolved UTxOs are
    plain data) *)
Theorem C06_reduce_keeps_closed : forall pick f e e',
  is_constant e = true -> datums_plain e = true -> reduce pick f e = Ok e' ->
  is_constant e' = true /\ datums_plain e' = true.
Proof. exact reduce_keeps_closed. Qed.
(** ... and so for every slot of a whole transaction: a template that passed the gate before
    compilation (tx_is_constant) still passes it after tx_reduce *)
Theorem C06_tx_reduce_keeps_closed : forall pick t t',
  tx_is_constant t = true -> tx_datums_plain t = true -> tx_reduce pick t = Ok t' ->
  tx_is_constant t' = true /\ tx_datums_plain t' = true.
Proof. exact tx_reduce_keeps_closed. Qed.

Print Assumptions C06_constant_closed.
Print Assumptions C06_params_complete.
Print Assumptions C06_params_sound.
Print Assumptions C06_apply_args_closes.
Print Assumptions C06_apply_fees_closes.
Print Assumptions C06_missing_arg_refused.
Print Assumptions C06_all_args_accepted.
Print Assumptions C06_apply_inputs_closes.
Print Assumptions C06_reduce_keeps_closed.
Print Assumptions C06_tx_reduce_keeps_closed.
Print Assumptions C06_queries_complete.
