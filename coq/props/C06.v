(** Property C06 — a template closes exactly when its reported parameters and queries are supplied. *)
From Tx3 Require Import Base Tir Reduce Walk Reduce_proofs.

(** the gate before compilation: a constant template holds no unresolved parameter at any position *)
Theorem C06_constant_closed : forall t, tx_is_constant t = true -> tx_unresolved t = [].
Proof. exact tx_constant_closed. Qed.
(** every unresolved value parameter found by the independent walk is reported *)
Theorem C06_params_complete : forall e n,
  sets_closed e = true -> (UValue, n) ∈ unresolved e -> n ∈ map fst (params e).
Proof. exact params_complete. Qed.
(** ... and every reported one really occurs ("exactly") *)
Theorem C06_params_sound : forall e n, n ∈ map fst (params e) -> (UValue, n) ∈ unresolved e.
Proof. exact params_sound. Qed.
(** substitution closes what it is given an argument for, at every position *)
Theorem C06_apply_args_closes : forall args e n,
  sets_closed e = true -> (UValue, n) ∈ unresolved (apply_args args e) -> n ∉ map fst args.
Proof. exact apply_args_closes. Qed.
Theorem C06_apply_fees_closes : forall fee e,
  sets_closed e = true -> forall n, (UFees, n) ∉ unresolved (apply_fees fee e).
Proof. exact apply_fees_closes. Qed.
(** a reported parameter without an argument is refused by name *)
Theorem C06_missing_arg_refused : forall t args k,
  k ∈ map fst (find_params t) -> k ∉ map fst args ->
  exists k', safe_apply_args t args = Err ("MissingTxArg:" ++ k')
             /\ k' ∈ map fst (find_params t) /\ lookup_arg k' args = None.
Proof. exact missing_arg_refused. Qed.
Theorem C06_all_args_accepted : forall t args,
  (forall k, k ∈ map fst (find_params t) -> is_Some (lookup_arg k args)) ->
  safe_apply_args t args = Ok (tx_apply_args args t).
Proof. exact all_args_accepted. Qed.

Print Assumptions C06_constant_closed.
Print Assumptions C06_params_complete.
Print Assumptions C06_params_sound.
Print Assumptions C06_apply_args_closes.
Print Assumptions C06_apply_fees_closes.
Print Assumptions C06_missing_arg_refused.
Print Assumptions C06_all_args_accepted.
