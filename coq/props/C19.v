(** Property C19 — diagnostics point inside the text they are attached to. *)
From Tx3 Require Import Base Peg Peg_proofs Peg_utf8.
From Tx3.gen Require Import Grammar.

(** every position the parser reaches lies inside the text it was given: a location derived
    from a parser position can always be rendered against the whole input *)
Theorem C19_positions_within_text : forall g fuel e inp rest pos',
  run g fuel false e inp 0 = RMatch rest pos' -> (pos' <= N.of_nat (length inp))%N.
Proof. exact run_position_within_text. Qed.

(** and the reported position is exactly the number of bytes consumed before the rest *)
Theorem C19_position_is_consumed_length : forall g fuel atomic e inp pos rest pos',
  run g fuel atomic e inp pos = RMatch rest pos' ->
  exists consumed, inp = (consumed ++ rest)%list /\ pos' = (pos + N.of_nat (length consumed))%N.
Proof. exact run_adv. Qed.

(** positions fall on character boundaries: over a grammar whose literals and ranges are ASCII
    (boolean certificate [ascii_grammar]), a match against a text made of whole UTF-8 sequences
    leaves a rest made of whole UTF-8 sequences, whatever the expression, mode and fuel *)
Theorem C19_matches_end_on_character_boundaries : forall g, ascii_grammar g = true ->
  forall fuel atomic e inp pos rest pos',
  ascii_exp e = true -> chars inp -> run g fuel atomic e inp pos = RMatch rest pos' -> chars rest.
Proof. exact run_chars. Qed.

(** the grammar of the current tree (generated from tx3.pest on this run) carries the
    certificate, so every position its parser reports from the start of a text is the offset of
    a character boundary of that text: the text can be sliced there *)
Theorem C19_tx3_positions_on_character_boundaries : forall fuel start inp rest pos',
  chars inp -> run tx3_grammar fuel false (PIdent start) inp 0 = RMatch rest pos' ->
  rest = drop (N.to_nat pos') inp /\ chars (drop (N.to_nat pos') inp).
Proof. apply run_position_on_boundary. vm_compute. reflexivity. Qed.

Print Assumptions C19_positions_within_text.
Print Assumptions C19_position_is_consumed_length.
Print Assumptions C19_matches_end_on_character_boundaries.
Print Assumptions C19_tx3_positions_on_character_boundaries.
