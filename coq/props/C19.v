(** Property C19 — diagnostics point inside the text they are attached to. *)
From Tx3 Require Import Base Peg Peg_proofs.

(** every position the parser reaches lies inside the text it was given: a location derived
    from a parser position can always be rendered against the whole input *)
Theorem C19_positions_within_text : forall g fuel e inp rest pos',
  run g fuel false e inp 0 = RMatch rest pos' -> (pos' <= N.of_nat (length inp))%N.
Proof. exact run_position_within_text. Qed.

(** and the reported position is exactly the number of bytes consumed before the rest *)
Theorem C19_position_is_consumed_length : forall g fuel atomic e inp pos rest pos',
  run g fuel atomic e inp pos = RMatch rest pos' ->
  exists consumed, inp = (consumed ++ rest)%list /\ pos' = (pos + N.of_nat (length consumed))%N.
Proof. exact run_adv. Qed.

Print Assumptions C19_positions_within_text.
Print Assumptions C19_position_is_consumed_length.
