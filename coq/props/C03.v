(** Property C03 — input selection honours every stated constraint and finds a match if one exists. *)
From Tx3 Require Import Base Assets Assets_proofs Select Select_proofs Select_complete.

(** constraint soundness, for every store, search space, query, ignore set and every oracle *)
Theorem C03_constraints : forall st sp q ign o u,
  u ∈ select st sp q ign o ->
  u ∈ st /\ meets q u = true /\ u_ref u ∉ ign /\
  (q_coll q = true -> is_only_naked (u_assets u) = true).
Proof. exact select_sound. Qed.
Theorem C03_meets_is_address_and_ref : forall q u,
  meets q u = true <->
  (match q_addr q with Some a => u_addr u = a | None => True end) /\
  (match q_refs q with [] => True | rs => u_ref u ∈ rs end).
Proof. exact meets_spec. Qed.
Theorem C03_single : forall st sp q ign o, q_many q = false ->
  (length (select st sp q ign o) <= 1)%nat /\
  forall u, u ∈ select st sp q ign o -> contains_total (u_assets u) (target_of q) = true.
Proof. exact select_single. Qed.
Theorem C03_many_covers : forall st sp q ign o,
  q_many q = true -> store_nonneg st -> NoDup (o_sorted o) ->
  select st sp q ign o <> [] ->
  forall k, get0 (target_of q) k <= get0 (total (select st sp q ign o)) k.
Proof. exact select_many_covers. Qed.
(** completeness of the two coin-selection procedures over the candidates they are handed *)
Theorem C03_single_complete : forall cs t,
  (exists u, u ∈ cs /\ contains_total (u_assets u) t = true) -> pick_single cs t <> [].
Proof. exact pick_single_complete. Qed.
Theorem C03_many_complete : forall cs t scans,
  NoDup (map u_ref cs) -> (forall u, u ∈ cs -> nonneg (u_assets u)) -> nonneg t -> cs <> [] ->
  (forall k, get0 t k <= get0 (total cs) k) -> pick_many cs t scans <> [].
Proof. exact pick_many_complete. Qed.
(** what coin selection is handed is exactly the set of candidates the property describes
    (address / reference / token match, not yet taken, collateral rule), as long as the search
    space fits the window; [fill] is the hash-set iteration oracle for the top-up *)
Theorem C03_candidates_exact : forall st q ign fill sp u,
  wf_store st -> narrow st q = Ok sp -> fill_ok sp window fill = true ->
  (length (s_list (sp_inter sp)) + length (take_diff sp) <= window)%nat ->
  (u ∈ fetched_cands st sp q ign fill <-> spec_candidate st q ign u).
Proof. exact fetched_iff_candidate. Qed.
(** end to end for a single-UTxO block: if some candidate covers the requested amount alone, the
    block is resolved *)
Theorem C03_single_block_served : forall st q ign o sp u,
  wf_store st -> q_many q = false ->
  narrow st q = Ok sp -> fill_ok sp window (o_fill o) = true ->
  (length (s_list (sp_inter sp)) + length (take_diff sp) <= window)%nat ->
  order_ok (o_sorted o) (fetched_cands st sp q ign (o_fill o)) = true ->
  spec_candidate st q ign u -> contains_total (u_assets u) (target_of q) = true ->
  select st sp q ign o <> [].
Proof. exact single_block_served. Qed.
(** ... and a `many` block whenever the candidates handed to coin selection (by the theorem above:
    the property's candidates) together cover the requested amount *)
Theorem C03_many_block_served : forall st q ign o sp,
  wf_store st -> store_nonneg st -> q_many q = true ->
  narrow st q = Ok sp ->
  order_ok (o_sorted o) (fetched_cands st sp q ign (o_fill o)) = true ->
  nonneg (target_of q) ->
  fetched_cands st sp q ign (o_fill o) <> [] ->
  (forall k, get0 (target_of q) k <= get0 (total (fetched_cands st sp q ign (o_fill o))) k) ->
  select st sp q ign o <> [].
Proof. exact many_block_served. Qed.
(** the selection window, regenerated constant tie is in gen/Consts.v when present *)
Theorem C03_window : window = 50%nat.
Proof. reflexivity. Qed.

Print Assumptions C03_constraints.
Print Assumptions C03_meets_is_address_and_ref.
Print Assumptions C03_single.
Print Assumptions C03_many_covers.
Print Assumptions C03_single_complete.
Print Assumptions C03_many_complete.
Print Assumptions C03_window.
Print Assumptions C03_candidates_exact.
Print Assumptions C03_single_block_served.
Print Assumptions C03_many_block_served.
