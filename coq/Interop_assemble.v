(** Interop_assemble.v — the argument map built from a resolve request: every declared parameter
    takes its value from `args`, and from `env` only when `args` does not supply it; nothing
    else enters the map (C16). *)
From Tx3 Require Import Base Tir Interop Interop_proofs.
Local Open Scope string_scope.

Section WithOracles.
Variables base64_decode bech32_decode : string -> option bytes.
Variable params : list (string * ty).

(** what one source says about a key: the coerced value of its first occurrence, when the key
    is a declared parameter *)
Definition supplied (src : list (string * json)) (k : string) : option arg_value :=
  match lookup_s k src, lookup_s k params with
  | Some v, Some t => match from_json base64_decode bech32_decode v t with Ok a => Some a | _ => None end
  | _, _ => None
  end.

Lemma lookup_s_cons {A} k k0 (v0 : A) r :
  lookup_s k ((k0, v0) :: r) = if bool_decide (k0 = k) then Some v0 else lookup_s k r.
Proof. unfold lookup_s. cbn. destruct (bool_decide (k0 = k)); reflexivity. Qed.

Lemma assemble_from_lookup src : forall acc skip out,
  assemble_from base64_decode bech32_decode params src acc skip = Ok out ->
  forall k, lookup_s k out = match lookup_s k acc with Some x => Some x | None => supplied src k end.
Proof.
  induction src as [|[k0 v0] src IH]; intros acc skip out H k; cbn [assemble_from] in H.
  - injection H as <-. unfold supplied. cbn. destruct (lookup_s k acc); reflexivity.
  - destruct (skip && bool_decide (is_Some (lookup_s k0 acc))) eqn:Es.
    + rewrite (IH _ _ _ H k). destruct (lookup_s k acc) eqn:Ea; [reflexivity|].
      apply andb_true_iff in Es as [_ Ep]. apply bool_decide_eq_true in Ep.
      unfold supplied. rewrite lookup_s_cons. destruct (bool_decide (k0 = k)) eqn:Ek; [|reflexivity].
      apply bool_decide_eq_true in Ek. subst k0. rewrite Ea in Ep. destruct Ep as [x Hx]. discriminate.
    + destruct (lookup_s k0 params) as [t|] eqn:Ep.
      * destruct (from_json base64_decode bech32_decode v0 t) as [a| | |] eqn:Ej; cbn [obind] in H; try discriminate.
        rewrite (IH _ _ _ H k). rewrite lookup_s_app_new.
        destruct (lookup_s k acc) eqn:Ea; [reflexivity|].
        unfold supplied. rewrite lookup_s_cons. destruct (bool_decide (k0 = k)) eqn:Ek; [|reflexivity].
        apply bool_decide_eq_true in Ek. subst k0. rewrite Ep, Ej. reflexivity.
      * rewrite (IH _ _ _ H k). destruct (lookup_s k acc) eqn:Ea; [reflexivity|].
        unfold supplied. rewrite lookup_s_cons. destruct (bool_decide (k0 = k)) eqn:Ek; [|reflexivity].
        apply bool_decide_eq_true in Ek. subst k0. rewrite Ep. destruct (lookup_s k src); reflexivity.
Qed.

(** the assembled request: `args` first, `env` for what `args` leaves open *)
Theorem assemble_args_then_env args env out :
  assemble base64_decode bech32_decode params args env = Ok out ->
  forall k, lookup_s k out = match supplied args k with Some a => Some a | None => supplied env k end.
Proof.
  unfold assemble. intros H k.
  destruct (assemble_from base64_decode bech32_decode params args [] false) as [a| | |] eqn:Ea; cbn [obind] in H; try discriminate.
  rewrite (assemble_from_lookup _ _ _ _ H k), (assemble_from_lookup _ _ _ _ Ea k). reflexivity.
Qed.

(** a declared parameter present in `args` is taken from there even when `env` has it too, and
    its coercion cannot have failed silently *)
Corollary assemble_args_win args env out k v t :
  assemble base64_decode bech32_decode params args env = Ok out ->
  lookup_s k args = Some v -> lookup_s k params = Some t ->
  exists a, from_json base64_decode bech32_decode v t = Ok a /\ lookup_s k out = Some a.
Proof.
  intros H Hv Ht. unfold assemble in H.
  destruct (assemble_from base64_decode bech32_decode params args [] false) as [a1| | |] eqn:Ea; cbn [obind] in H; try discriminate.
  (* the coercion of the first occurrence was evaluated, and the whole ended Ok *)
  assert (Hj : exists a, from_json base64_decode bech32_decode v t = Ok a).
  { clear H. revert Ea. generalize (@nil (string * arg_value)). revert Hv.
    induction args as [|[k0 v0] r IH]; intros Hv acc Ea; [discriminate|].
    rewrite lookup_s_cons in Hv. cbn [assemble_from andb] in Ea.
    destruct (bool_decide (k0 = k)) eqn:Ek.
    - apply bool_decide_eq_true in Ek. subst k0. injection Hv as ->. rewrite Ht in Ea.
      destruct (from_json base64_decode bech32_decode v t) as [a| | |]; cbn [obind] in Ea; try discriminate. eauto.
    - destruct (lookup_s k0 params) as [t0|].
      + destruct (from_json base64_decode bech32_decode v0 t0) as [a0| | |]; cbn [obind] in Ea; try discriminate.
        eapply IH; eassumption.
      + eapply IH; eassumption. }
  destruct Hj as [a Hj]. exists a. split; [exact Hj|].
  rewrite (assemble_from_lookup _ _ _ _ H k), (assemble_from_lookup _ _ _ _ Ea k). cbn.
  unfold supplied. rewrite Hv, Ht, Hj. reflexivity.
Qed.
End WithOracles.
