(** C15_check.v — executable comparison of the Assets model with what the
    implementation computed on the same construction paths (correspondence tie
    of C15), plus the property's laws evaluated on the implementation's own
    results. Run by `coqc` on harness-written case files. *)
From Tx3 Require Import Base Assets.

Inductive vexpr :=
| VEmpty
| VNaked (z : Z)
| VNamed (n : bytes) (z : Z)
| VDefined (p n : bytes) (z : Z)
| VClassAmt (c : asset_class) (z : Z)
| VAsset (p n : option bytes) (z : Z)
| VOfExprs (l : list asset_expr)
| VAdd (a b : vexpr)
| VSub (a b : vexpr)
| VNeg (a : vexpr).

Fixpoint veval (v : vexpr) : assets :=
  match v with
  | VEmpty => a_empty
  | VNaked z => from_naked_amount z
  | VNamed n z => from_named_asset n z
  | VDefined p n z => from_defined_asset p n z
  | VClassAmt c z => from_class_and_amount c z
  | VAsset p n z => from_asset p n z
  | VOfExprs l => match of_exprs l with Ok a => a | _ => a_empty end
  | VAdd a b => a_add (veval a) (veval b)
  | VSub a b => a_sub (veval a) (veval b)
  | VNeg a => a_neg (veval a)
  end.

Definition entries := list (asset_class * Z).
Definition of_entries (l : entries) : assets := list_to_map l.

(** what the implementation reported for one case *)
Record obs := {
  o_a : entries; o_b : entries; o_c : entries;
  o_add_ab : entries; o_add_ba : entries; o_sub_ab : entries; o_neg_a : entries;
  o_add_ab_c : entries; o_add_a_bc : entries; o_subadd : entries;   (* (a-b)+b *)
  o_add_a_negb : entries;
  o_ct_ab : bool; o_cs_ab : bool; o_emp_a : bool; o_eon_a : bool; o_naked_a : bool;
  o_eq_ab : bool; o_eq_subadd_a : bool; o_eq_a_stripped : bool;
  o_ord_a : entries;       (* to_exprs(a) in the implementation's iteration order *)
  o_ord_b : entries;
  o_rt_a : entries;        (* CanonicalAssets::from(to_exprs(a)) *)
  o_red_add : option entries;  (* reduce(Add(Assets(to_exprs a), Assets(to_exprs b))) *)
  o_red_sub : option entries;
  o_red_neg : option entries;
  o_boosted : bool;        (* the clamped operations were applied to a and b scaled by 2^125 *)
  o_sat_add : entries;     (* saturating_add *)
  o_sat_sub : entries;     (* saturating_sub *)
}.

Record case := { c_a : vexpr; c_b : vexpr; c_c : vexpr; c_obs : obs }.

Definition same (l : entries) (m : assets) : bool :=
  bool_decide (of_entries l = m) && (length l =? size m)%nat.

Definition same_opt (l : option entries) (m : outcome assets) : bool :=
  match l, m with
  | Some l, Ok m => same l m
  | None, Ok _ => false
  | Some _, _ => false
  | None, _ => true
  end.

Definition aeqb (a b : assets) : bool := eq_impl a b.

(** the scaling the harness applies before the clamped operations: every amount times 2^125,
    zero entries dropped (the scaled value is rebuilt by addition) *)
Definition boost (a : assets) : assets := strip ((fun z => z * 2 ^ 125) <$> a).

(** model vs implementation: ids 1.. ; laws on the implementation's outputs: ids 101.. *)
Definition checks (c : case) : list (N * bool) :=
  let a := veval (c_a c) in let b := veval (c_b c) in let cc := veval (c_c c) in
  let o := c_obs c in
  let ra := of_exprs (to_exprs_ord (o_ord_a o)) in
  let rb := of_exprs (to_exprs_ord (o_ord_b o)) in
  [ (1%N, same (o_a o) a); (2%N, same (o_b o) b); (3%N, same (o_c o) cc);
    (4%N, same (o_add_ab o) (a_add a b)); (5%N, same (o_add_ba o) (a_add b a));
    (6%N, same (o_sub_ab o) (a_sub a b)); (7%N, same (o_neg_a o) (a_neg a));
    (8%N, same (o_add_ab_c o) (a_add (a_add a b) cc));
    (9%N, same (o_add_a_bc o) (a_add a (a_add b cc)));
    (10%N, same (o_subadd o) (a_add (a_sub a b) b));
    (11%N, same (o_add_a_negb o) (a_add a (a_neg b)));
    (12%N, eqb (o_ct_ab o) (contains_total a b));
    (13%N, eqb (o_cs_ab o) (contains_some a b));
    (14%N, eqb (o_emp_a o) (a_is_empty a));
    (15%N, eqb (o_eon_a o) (is_empty_or_negative a));
    (16%N, eqb (o_naked_a o) (is_only_naked a));
    (17%N, eqb (o_eq_ab o) (eq_impl a b));
    (18%N, eqb (o_eq_subadd_a o) (eq_impl (a_add (a_sub a b) b) a));
    (19%N, same (o_ord_a o) a);
    (20%N, same_opt (Some (o_rt_a o)) ra);
    (21%N, same_opt (o_red_add o) (x <- ra ;; y <- rb ;; Ok (a_add x y)));
    (22%N, same_opt (o_red_sub o) (x <- ra ;; y <- rb ;; Ok (a_add x (a_neg y))));
    (23%N, same_opt (o_red_neg o) (x <- ra ;; Ok (a_neg x)));
    (24%N, eqb (o_eq_a_stripped o) true);
    (25%N, let f := if o_boosted o then boost else (fun x => x) in same (o_sat_add o) (a_sat_add (f a) (f b)));
    (26%N, let f := if o_boosted o then boost else (fun x => x) in same (o_sat_sub o) (a_sat_sub (f a) (f b)));
    (* the property's laws, on the implementation's own results *)
    (101%N, aeqb (of_entries (o_add_ab o)) (of_entries (o_add_ba o)));
    (102%N, aeqb (of_entries (o_add_ab_c o)) (of_entries (o_add_a_bc o)));
    (103%N, aeqb (of_entries (o_sub_ab o)) (of_entries (o_add_a_negb o)));
    (104%N, aeqb (of_entries (o_subadd o)) (of_entries (o_a o)));
    (105%N, eqb (o_eq_ab o) (aeqb (of_entries (o_a o)) (of_entries (o_b o))));
    (106%N, o_eq_subadd_a o);
    (107%N, if nonnegb (of_entries (o_a o)) && nonnegb (of_entries (o_b o))
          then eqb (o_ct_ab o)
                 (forallb (fun kv => kv.2 <=? get0 (of_entries (o_a o)) kv.1) (o_b o))
          else true);
    (* every case value is built through the constructors: no premise about its classes
       (Assets_wf.exprs_roundtrip_built) *)
    (108%N, aeqb (of_entries (o_rt_a o)) (of_entries (o_a o)))
  ].

Definition failed (c : case) : list N :=
  map fst (filter (fun x => negb (snd x)) (checks c)).

Fixpoint run_from (i : N) (cs : list case) : list (N * list N) :=
  match cs with
  | [] => []
  | c :: r =>
    match failed c with
    | [] => run_from (i + 1)%N r
    | f => (i, f) :: run_from (i + 1)%N r
    end
  end.
Definition run (cs : list case) := run_from 0%N cs.
