(** Peg_term.v — recursive descent over a grammar without left recursion ends on every input:
    for every expression, every text and every start position there is an amount of fuel with
    which the interpreter answers (match or failure), and by Peg_proofs.run_mono every larger
    amount gives the same answer (C12).

    The hypotheses are three boolean checks on the grammar, evaluated inside Coq on the grammar
    generated from tx3.pest:
      - [nl_closed]: the list of nullable rules is closed under the nullability analysis;
      - [rank_ok]: a rank on rule names decreases along every call that can happen before any
        input is consumed (no left recursion);
      - [skip_ok]: WHITESPACE and COMMENT call no other rule and are not non-atomic. *)
From Tx3 Require Import Base Peg Peg_proofs.

Definition skipE : pexp := PRep (PChoice (PIdent "WHITESPACE") (PIdent "COMMENT")).

Definition defined (g : grammar) (n : string) : bool := bool_decide (is_Some (glookup g n)).

Definition nl_closed (g : grammar) (nl : list string) : bool :=
  forallb (fun r => implb (nullable nl (snd (snd r))) (bool_decide (fst r ∈ nl))) g.

Definition rank_ok (g : grammar) (nl : list string) (rk : string -> nat) : bool :=
  forallb (fun r => forallb (fun m => negb (defined g m) || (rk m <? rk (fst r))%nat) (first_calls nl (snd (snd r)))) g.

Definition closed_expr (g : grammar) (e : pexp) : bool := forallb (fun m => negb (defined g m)) (refs e).

Definition skip_rule_ok (g : grammar) (n : string) : bool :=
  match glookup g n with
  | Some (k, body) => match k with RNonAtomic => false | _ => true end && closed_expr g body
  | None => true
  end.
Definition skip_ok (g : grammar) : bool := skip_rule_ok g "WHITESPACE" && skip_rule_ok g "COMMENT".

Lemma glookup_in g n kb : glookup g n = Some kb -> (n, kb) ∈ g.
Proof.
  unfold glookup. destruct (find _ g) as [[n' kb']|] eqn:E; [|discriminate]. cbn. intros H. injection H as <-.
  apply find_some in E as [Hin Hn]. cbn in Hn. apply bool_decide_eq_true in Hn. subst. apply elem_of_list_In. exact Hin.
Qed.

Lemma adv_le i p r q : adv i p r q -> (p <= q)%N.
Proof. intros [c [_ ->]]. lia. Qed.
Lemma adv_same i p r : adv i p r p -> r = i.
Proof. intros [c [-> H]]. destruct c; [reflexivity|cbn in H; lia]. Qed.
Lemma adv_len i p r q : adv i p r q -> (length r <= length i)%nat /\ (q <> p -> (length r < length i)%nat) /\ (q = p -> r = i).
Proof.
  intros [c [-> ->]]. rewrite app_length. split; [lia|]. split.
  - intros Hne. destruct c; [cbn in Hne; lia|cbn; lia].
  - intros He. destruct c; [reflexivity|cbn in He; lia].
Qed.

Section Term.
Variable g : grammar.
Variable nl : list string.
Variable rk : string -> nat.
Hypothesis Hnl : forall n k body, glookup g n = Some (k, body) -> nullable nl body = true -> n ∈ nl.
Hypothesis Hrk : forall n k body, glookup g n = Some (k, body) ->
  forall m, m ∈ first_calls nl body -> defined g m = true -> (rk m < rk n)%nat.
(** the implicit skip ends on every input *)
Hypothesis HS : forall inp pos, exists f, run g f true skipE inp pos <> RFuel.

Definition Term (a : bool) (e : pexp) (inp : list N) (pos : N) : Prop := exists f, run g f a e inp pos <> RFuel.
Definition T (inp : list N) (e : pexp) : Prop := forall a pos, Term a e inp pos.

Lemma settle a e inp pos : Term a e inp pos ->
  exists f x, x <> RFuel /\ forall f', (f <= f')%nat -> run g f' a e inp pos = x.
Proof.
  intros [f Hf]. exists f, (run g f a e inp pos). split; [exact Hf|].
  intros f' Hle. eapply run_mono; [reflexivity|exact Hf|exact Hle].
Qed.

(** a match that consumes nothing is predicted by the nullability analysis *)
Lemma nullable_sound : forall f a e inp pos r, run g f a e inp pos = RMatch r pos -> nullable nl e = true.
Proof.
  induction f as [|f IH]; intros a e inp pos r H; [discriminate|].
  destruct e; cbn [run] in H; cbn [nullable].
  - (* PStr *) destruct (strip_prefix s inp) eqn:E; [|discriminate]. injection H as _ Hp.
    destruct s; [reflexivity|cbn in Hp; lia].
  - (* PRange *) unfold one in H. destruct inp as [|x inp]; [discriminate|]. destruct (in_range lo hi x); [|discriminate].
    injection H as _ Hp. lia.
  - (* PIdent *)
    destruct (bool_decide (name = "ANY"%string)) eqn:B1.
    { destruct inp as [|x inp]; [discriminate|]. destruct (_ <=? _)%nat; [|discriminate]. injection H as _ Hp.
      unfold utf8_len in Hp. repeat (destruct (_ <? _)%N in Hp); cbn in Hp; lia. }
    destruct (bool_decide (name = "SOI"%string)) eqn:B2.
    { apply bool_decide_eq_true in B2. subst. reflexivity. }
    destruct (bool_decide (name = "EOI"%string)) eqn:B3.
    { apply bool_decide_eq_true in B3. subst. reflexivity. }
    assert (Hone : forall p, one p inp pos = RMatch r pos -> False).
    { intros p Ho. unfold one in Ho. destruct inp as [|x inp]; [discriminate|]. destruct (p x); [|discriminate]. injection Ho as _ Hp. lia. }
    destruct (bool_decide (name = "ASCII_ALPHA"%string)); [exfalso; eapply Hone; exact H|].
    destruct (bool_decide (name = "ASCII_DIGIT"%string)); [exfalso; eapply Hone; exact H|].
    destruct (bool_decide (name = "ASCII_ALPHANUMERIC"%string)); [exfalso; eapply Hone; exact H|].
    destruct (bool_decide (name = "ASCII_HEX_DIGIT"%string)); [exfalso; eapply Hone; exact H|].
    destruct (glookup g name) as [[k body]|] eqn:El; [|discriminate].
    apply orb_true_iff. right. apply bool_decide_eq_true. eapply Hnl; [exact El|]. eapply IH. exact H.
  - (* PSeq *)
    destruct (run g f a e1 inp pos) as [r1 p1| |] eqn:E1; try discriminate.
    pose proof (run_adv g _ _ _ _ _ _ _ E1) as A1.
    match type of H with match ?s with _ => _ end = _ => destruct s as [r2 p2| |] eqn:E2; try discriminate end.
    assert (A2 : adv r1 p1 r2 p2).
    { destruct a; [injection E2 as <- <-; apply adv_refl|eapply run_adv; exact E2]. }
    pose proof (run_adv g _ _ _ _ _ _ _ H) as A3.
    pose proof (adv_le _ _ _ _ A1). pose proof (adv_le _ _ _ _ A2). pose proof (adv_le _ _ _ _ A3).
    assert (p1 = pos) by lia. assert (p2 = pos) by lia. subst p1 p2.
    rewrite (IH _ _ _ _ _ E1). rewrite (IH _ _ _ _ _ H). reflexivity.
  - (* PChoice *)
    destruct (run g f a e1 inp pos) as [r1 p1| |] eqn:E1; try discriminate.
    + injection H as -> ->. rewrite (IH _ _ _ _ _ E1). reflexivity.
    + rewrite (IH _ _ _ _ _ H). apply orb_true_r.
  - reflexivity.
  - reflexivity.
  - (* PRepOnce *)
    destruct (run g f a e inp pos) as [r1 p1| |] eqn:E1; try discriminate.
    pose proof (run_adv g _ _ _ _ _ _ _ E1) as A1.
    destruct (p1 =? pos)%N eqn:Ep.
    + apply N.eqb_eq in Ep. subst p1. eapply IH. exact E1.
    + apply N.eqb_neq in Ep. pose proof (adv_le _ _ _ _ A1).
      match type of H with match ?s with _ => _ end = _ => destruct s as [r2 p2| |] eqn:E2; try discriminate end.
      * assert (A2 : adv r1 p1 r2 p2).
        { destruct a; [injection E2 as <- <-; apply adv_refl|eapply run_adv; exact E2]. }
        pose proof (adv_le _ _ _ _ A2).
        destruct (run g f a (PRepOnce e) r2 p2) as [r3 p3| |] eqn:E3; try discriminate.
        -- injection H as _ Hp. pose proof (adv_le _ _ _ _ (run_adv g _ _ _ _ _ _ _ E3)). lia.
        -- injection H as _ Hp. lia.
      * injection H as _ Hp. lia.
  - reflexivity.
  - reflexivity.
Qed.

(** * one level of the induction: inputs of length [L], rules of rank below [k] *)
Section Level.
Variable L : nat.
Hypothesis HL : forall inp', (length inp' < L)%nat -> forall e', T inp' e'.

(** the skip after a partial match, at whatever fuel *)
Lemma skip_settles (a : bool) (i : list N) (p : N) :
  exists f x, x <> RFuel /\ forall f', (f <= f')%nat ->
    (if a then RMatch i p else run g f' true skipE i p) = x.
Proof.
  destruct a.
  - exists 0%nat, (RMatch i p). split; [discriminate|]. reflexivity.
  - destruct (settle true skipE i p (HS i p)) as [f [x [Hx Hf]]]. exists f, x. split; [exact Hx|exact Hf].
Qed.

(** the tail of a repetition: after progress the rest is shorter *)
Lemma rep_tail (a : bool) (e : pexp) (inp : list N) (pos : N) (r1 : list N) (p1 : N) :
  length inp = L -> adv inp pos r1 p1 -> p1 <> pos ->
  exists f x, x <> RFuel /\ forall f', (f <= f')%nat ->
    match (if a then RMatch r1 p1 else run g f' true skipE r1 p1) with
    | RMatch r2 p2 =>
      match run g f' a (PRepOnce e) r2 p2 with
      | RMatch r3 p3 => RMatch r3 p3
      | RFail => RMatch r1 p1
      | RFuel => RFuel
      end
    | RFail => RMatch r1 p1
    | RFuel => RFuel
    end = x.
Proof.
  intros HLen A1 Hne. destruct (adv_len _ _ _ _ A1) as (_ & Hlt & _). specialize (Hlt Hne).
  destruct (skip_settles a r1 p1) as [f2 [x2 [Hx2 Hf2]]].
  destruct x2 as [r2 p2| |]; [| |congruence].
  - assert (A2 : adv r1 p1 r2 p2).
    { specialize (Hf2 f2 (le_n _)). destruct a; [injection Hf2 as <- <-; apply adv_refl|eapply run_adv; exact Hf2]. }
    destruct (adv_len _ _ _ _ A2) as (Hle2 & _ & _).
    destruct (settle a (PRepOnce e) r2 p2 (HL r2 ltac:(lia) (PRepOnce e) a p2)) as [f3 [x3 [Hx3 Hf3]]].
    exists (Nat.max f2 f3).
    destruct x3 as [r3 p3| |]; [| |congruence].
    + exists (RMatch r3 p3). split; [discriminate|]. intros f' Hf'. rewrite (Hf2 f') by lia. rewrite (Hf3 f') by lia. reflexivity.
    + exists (RMatch r1 p1). split; [discriminate|]. intros f' Hf'. rewrite (Hf2 f') by lia. rewrite (Hf3 f') by lia. reflexivity.
  - exists f2, (RMatch r1 p1). split; [discriminate|]. intros f' Hf'. rewrite (Hf2 f') by lia. reflexivity.
Qed.

Variable k : nat.
Hypothesis Hk : forall m, defined g m = true -> (rk m < k)%nat -> forall inp, length inp = L -> T inp (PIdent m).

Lemma core : forall e, (forall m, m ∈ first_calls nl e -> defined g m = true -> (rk m < k)%nat) ->
  forall inp, length inp = L -> T inp e.
Proof.
  induction e as [s|lo hi|n|e1 IH1 e2 IH2|e1 IH1 e2 IH2|e IH|e IH|e IH|e IH|e IH]; intros Hfc inp HLen a pos; unfold Term.
  - (* PStr *) exists 1%nat. cbn [run]. destruct (strip_prefix s inp); discriminate.
  - (* PRange *) exists 1%nat. cbn [run]. unfold one. destruct inp; [discriminate|]. destruct (in_range lo hi n); discriminate.
  - (* PIdent *)
    destruct (glookup g n) as [[kd body]|] eqn:El.
    + (* a defined rule: either shadowed by a built-in name, or of rank below k *)
      assert (Hd : defined g n = true) by (unfold defined; apply bool_decide_eq_true; rewrite El; eexists; reflexivity).
      assert (Hr : (rk n < k)%nat) by (apply Hfc; [cbn; left|exact Hd]).
      exact (Hk n Hd Hr inp HLen a pos).
    + exists 1%nat. cbn [run]. rewrite El.
      repeat match goal with |- (if bool_decide ?c then _ else _) <> _ => destruct (bool_decide c) end;
        unfold one; try (destruct inp as [|x inp']; [discriminate|]); try discriminate;
        repeat match goal with |- (if ?c then _ else _) <> _ => destruct c end; discriminate.
  - (* PSeq *)
    assert (Hfc1 : forall m, m ∈ first_calls nl e1 -> defined g m = true -> (rk m < k)%nat).
    { intros m Hm. apply Hfc. cbn [first_calls]. apply elem_of_app. left. exact Hm. }
    destruct (settle a e1 inp pos (IH1 Hfc1 inp HLen a pos)) as [f1 [x1 [Hx1 Hf1]]].
    destruct x1 as [r1 p1| |]; [| |congruence].
    2:{ exists (S f1). cbn [run]. rewrite (Hf1 f1 (le_n _)). discriminate. }
    pose proof (run_adv g _ _ _ _ _ _ _ (Hf1 f1 (le_n _))) as A1.
    destruct (skip_settles a r1 p1) as [f2 [x2 [Hx2 Hf2]]].
    destruct x2 as [r2 p2| |]; [| |congruence].
    2:{ exists (S (Nat.max f1 f2)). cbn [run]. rewrite (Hf1 (Nat.max f1 f2)) by lia.
        change (PRep (PChoice (PIdent "WHITESPACE") (PIdent "COMMENT"))) with skipE.
        rewrite (Hf2 (Nat.max f1 f2)) by lia. discriminate. }
    assert (A2 : adv r1 p1 r2 p2).
    { specialize (Hf2 f2 (le_n _)). destruct a; [injection Hf2 as <- <-; apply adv_refl|eapply run_adv; exact Hf2]. }
    assert (T2 : Term a e2 r2 p2).
    { destruct (adv_len _ _ _ _ A1) as (Hle1 & Hlt1 & Heq1). destruct (adv_len _ _ _ _ A2) as (Hle2 & Hlt2 & Heq2).
      destruct (N.eq_dec p1 pos) as [E1|N1]; [destruct (N.eq_dec p2 p1) as [E2|N2]|].
      - (* nothing consumed so far: e1 is nullable and e2 is still at a first position *)
        subst p1. rewrite (Heq2 E2), (Heq1 eq_refl).
        assert (Hn1 : nullable nl e1 = true) by (eapply nullable_sound; exact (Hf1 f1 (le_n _))).
        apply IH2; [|exact HLen]. intros m Hm. apply Hfc. cbn [first_calls]. rewrite Hn1. apply elem_of_app. right. exact Hm.
      - apply HL. specialize (Hlt2 N2). lia.
      - apply HL. specialize (Hlt1 N1). lia. }
    destruct (settle a e2 r2 p2 T2) as [f3 [x3 [Hx3 Hf3]]].
    exists (S (Nat.max f1 (Nat.max f2 f3))). cbn [run]. rewrite (Hf1 (Nat.max f1 (Nat.max f2 f3))) by lia.
    change (PRep (PChoice (PIdent "WHITESPACE") (PIdent "COMMENT"))) with skipE.
    rewrite (Hf2 (Nat.max f1 (Nat.max f2 f3))) by lia. rewrite (Hf3 (Nat.max f1 (Nat.max f2 f3))) by lia. exact Hx3.
  - (* PChoice *)
    assert (Hfc1 : forall m, m ∈ first_calls nl e1 -> defined g m = true -> (rk m < k)%nat).
    { intros m Hm. apply Hfc. cbn [first_calls]. apply elem_of_app. left. exact Hm. }
    assert (Hfc2 : forall m, m ∈ first_calls nl e2 -> defined g m = true -> (rk m < k)%nat).
    { intros m Hm. apply Hfc. cbn [first_calls]. apply elem_of_app. right. exact Hm. }
    destruct (settle a e1 inp pos (IH1 Hfc1 inp HLen a pos)) as [f1 [x1 [Hx1 Hf1]]].
    destruct (settle a e2 inp pos (IH2 Hfc2 inp HLen a pos)) as [f2 [x2 [Hx2 Hf2]]].
    exists (S (Nat.max f1 f2)). cbn [run]. rewrite (Hf1 (Nat.max f1 f2)) by lia.
    destruct x1; [discriminate| |congruence]. rewrite (Hf2 (Nat.max f1 f2)) by lia. exact Hx2.
  - (* POpt *)
    destruct (settle a e inp pos (IH Hfc inp HLen a pos)) as [f1 [x1 [Hx1 Hf1]]].
    exists (S f1). cbn [run]. rewrite (Hf1 f1 (le_n _)). destruct x1; [discriminate|discriminate|congruence].
  - (* PRep *)
    destruct (settle a e inp pos (IH Hfc inp HLen a pos)) as [f1 [x1 [Hx1 Hf1]]].
    destruct x1 as [r1 p1| |]; [| |congruence].
    2:{ exists (S f1). cbn [run]. rewrite (Hf1 f1 (le_n _)). discriminate. }
    pose proof (run_adv g _ _ _ _ _ _ _ (Hf1 f1 (le_n _))) as A1.
    destruct (N.eq_dec p1 pos) as [E1|N1].
    + exists (S f1). cbn [run]. rewrite (Hf1 f1 (le_n _)). apply N.eqb_eq in E1. rewrite E1. discriminate.
    + destruct (rep_tail a e inp pos r1 p1 HLen A1 N1) as [f2 [x2 [Hx2 Hf2]]].
      exists (S (Nat.max f1 f2)). cbn [run]. rewrite (Hf1 (Nat.max f1 f2)) by lia.
      apply N.eqb_neq in N1. rewrite N1.
      change (PRep (PChoice (PIdent "WHITESPACE") (PIdent "COMMENT"))) with skipE.
      rewrite (Hf2 (Nat.max f1 f2)) by lia. exact Hx2.
  - (* PRepOnce *)
    destruct (settle a e inp pos (IH Hfc inp HLen a pos)) as [f1 [x1 [Hx1 Hf1]]].
    destruct x1 as [r1 p1| |]; [| |congruence].
    2:{ exists (S f1). cbn [run]. rewrite (Hf1 f1 (le_n _)). discriminate. }
    pose proof (run_adv g _ _ _ _ _ _ _ (Hf1 f1 (le_n _))) as A1.
    destruct (N.eq_dec p1 pos) as [E1|N1].
    + exists (S f1). cbn [run]. rewrite (Hf1 f1 (le_n _)). apply N.eqb_eq in E1. rewrite E1. discriminate.
    + destruct (rep_tail a e inp pos r1 p1 HLen A1 N1) as [f2 [x2 [Hx2 Hf2]]].
      exists (S (Nat.max f1 f2)). cbn [run]. rewrite (Hf1 (Nat.max f1 f2)) by lia.
      apply N.eqb_neq in N1. rewrite N1.
      change (PRep (PChoice (PIdent "WHITESPACE") (PIdent "COMMENT"))) with skipE.
      rewrite (Hf2 (Nat.max f1 f2)) by lia. exact Hx2.
  - (* PNeg *)
    destruct (settle a e inp pos (IH Hfc inp HLen a pos)) as [f1 [x1 [Hx1 Hf1]]].
    exists (S f1). cbn [run]. rewrite (Hf1 f1 (le_n _)). destruct x1; [discriminate|discriminate|congruence].
  - (* PPos *)
    destruct (settle a e inp pos (IH Hfc inp HLen a pos)) as [f1 [x1 [Hx1 Hf1]]].
    exists (S f1). cbn [run]. rewrite (Hf1 f1 (le_n _)). destruct x1; [discriminate|discriminate|congruence].
Qed.
End Level.

(** rules, by rank *)
Lemma ident_T L (HL : forall inp', (length inp' < L)%nat -> forall e', T inp' e') :
  forall k m, defined g m = true -> (rk m < k)%nat -> forall inp, length inp = L -> T inp (PIdent m).
Proof.
  induction k as [|k IHk]; intros m Hd Hr inp HLen a pos; [lia|].
  unfold defined in Hd. apply bool_decide_eq_true in Hd. destruct Hd as [[kd body] El].
  (* built-in names shadow rules of the same name *)
  assert (Hb : T inp body).
  { apply (core L HL (rk m)); [| |exact HLen].
    - intros m' Hd' Hr' inp' HLen'. apply IHk; [exact Hd'|lia|exact HLen'].
    - intros m' Hm' Hd'. eapply Hrk; [exact El|exact Hm'|exact Hd']. }
  set (a' := match kd with RAtomic | RCompound => true | RNonAtomic => false | _ => a end).
  destruct (Hb a' pos) as [f Hf]. exists (S f). cbn [run].
  repeat match goal with |- (if bool_decide ?c then _ else _) <> _ => destruct (bool_decide c) end.
  all: try (rewrite El; exact Hf).
  all: try (destruct (pos =? 0)%N; discriminate).
  all: try (destruct inp; discriminate).
  all: unfold one; destruct inp as [|x inp']; [discriminate|]; cbv zeta;
    repeat match goal with |- (if ?c then _ else _) <> _ => destruct c end; discriminate.
Qed.

Theorem terminates : forall inp e, T inp e.
Proof.
  intros inp. remember (length inp) as L eqn:HLen. revert inp HLen.
  induction L as [L IHL] using lt_wf_ind. intros inp HLen e.
  assert (HL : forall inp', (length inp' < L)%nat -> forall e', T inp' e').
  { intros inp' Hlt e'. apply (IHL (length inp') Hlt inp' eq_refl). }
  apply (core L HL (S (list_max (map rk (first_calls nl e))))); [| |symmetry; exact HLen].
  - intros m Hd _ inp' HLen'. apply (ident_T L HL (S (rk m))); [exact Hd|lia|exact HLen'].
  - intros m Hm _. assert (rk m <= list_max (map rk (first_calls nl e)))%nat; [|lia].
    apply elem_of_list_In in Hm. clear -Hm. induction (first_calls nl e) as [|x l IH]; [destruct Hm|].
    cbn [map]. change (list_max (rk x :: map rk l)) with (Nat.max (rk x) (list_max (map rk l))).
    destruct Hm as [->|Hm]; [lia|]. specialize (IH Hm). lia.
Qed.
End Term.

(** * from the boolean checks to the hypotheses *)
Lemma nl_closed_spec g nl : nl_closed g nl = true ->
  forall n k body, glookup g n = Some (k, body) -> nullable nl body = true -> n ∈ nl.
Proof.
  unfold nl_closed. rewrite forallb_forall. intros H n k body El Hn.
  apply glookup_in, elem_of_list_In in El. specialize (H _ El). cbn [fst snd] in H. rewrite Hn in H.
  cbn [implb] in H. apply bool_decide_eq_true in H. exact H.
Qed.
Lemma rank_ok_spec g nl rk : rank_ok g nl rk = true ->
  forall n k body, glookup g n = Some (k, body) ->
  forall m, m ∈ first_calls nl body -> defined g m = true -> (rk m < rk n)%nat.
Proof.
  unfold rank_ok. rewrite forallb_forall. intros H n k body El m Hm Hd.
  apply glookup_in, elem_of_list_In in El. specialize (H _ El). cbn [fst snd] in H.
  rewrite forallb_forall in H. apply elem_of_list_In in Hm. specialize (H _ Hm). rewrite Hd in H. cbn [negb orb] in H.
  apply Nat.ltb_lt in H. exact H.
Qed.

(** * the empty grammar: every non-built-in name fails, so everything ends *)
Lemma skip_empty inp pos : exists f, run [] f true skipE inp pos <> RFuel.
Proof. exists 3%nat. cbn. discriminate. Qed.

Lemma terminates_empty : forall inp e a pos, exists f, run [] f a e inp pos <> RFuel.
Proof.
  intros inp e a pos. apply (terminates [] [] (fun _ => O)).
  - intros n k body H. discriminate.
  - intros n k body H. discriminate.
  - exact skip_empty.
Qed.

(** an expression that calls no rule of [g] runs, in atomic mode, as over the empty grammar *)
Lemma closed_app g a b : closed_expr g a = true -> closed_expr g b = true -> forallb (fun m => negb (defined g m)) (refs a ++ refs b) = true.
Proof. unfold closed_expr. intros Ha Hb. rewrite forallb_app, Ha, Hb. reflexivity. Qed.

Lemma run_closed_eq g : forall f e inp pos, closed_expr g e = true -> run g f true e inp pos = run [] f true e inp pos.
Proof.
  induction f as [|f IH]; intros e inp pos Hc; [reflexivity|].
  assert (Hsplit : forall a b, closed_expr g (PSeq a b) = true -> closed_expr g a = true /\ closed_expr g b = true).
  { intros a b H. unfold closed_expr in *. cbn [refs] in H. rewrite forallb_app in H. apply andb_true_iff in H. exact H. }
  destruct e; cbn [run].
  - reflexivity.
  - reflexivity.
  - (* PIdent *)
    repeat match goal with |- (if bool_decide ?c then _ else _) = _ => destruct (bool_decide c) end; try reflexivity.
    unfold closed_expr in Hc. cbn [refs forallb] in Hc. rewrite andb_true_r in Hc. apply negb_true_iff in Hc.
    unfold defined in Hc. apply bool_decide_eq_false in Hc. destruct (glookup g name) as [kb|]; [exfalso; apply Hc; eexists; reflexivity|].
    reflexivity.
  - (* PSeq *) destruct (Hsplit _ _ Hc) as [H1 H2]. rewrite (IH e1 inp pos H1).
    destruct (run [] f true e1 inp pos) as [r1 p1| |]; try reflexivity. apply IH. exact H2.
  - (* PChoice *) destruct (Hsplit _ _ Hc) as [H1 H2]. rewrite (IH e1 inp pos H1).
    destruct (run [] f true e1 inp pos) as [r1 p1| |]; try reflexivity. apply IH. exact H2.
  - (* POpt *) rewrite (IH e inp pos Hc). reflexivity.
  - (* PRep *) rewrite (IH e inp pos Hc). destruct (run [] f true e inp pos) as [r1 p1| |]; try reflexivity.
    destruct (p1 =? pos)%N; [reflexivity|]. rewrite (IH (PRepOnce e) r1 p1 Hc). reflexivity.
  - (* PRepOnce *) rewrite (IH e inp pos Hc). destruct (run [] f true e inp pos) as [r1 p1| |]; try reflexivity.
    destruct (p1 =? pos)%N; [reflexivity|]. rewrite (IH (PRepOnce e) r1 p1 Hc). reflexivity.
  - (* PNeg *) rewrite (IH e inp pos Hc). reflexivity.
  - (* PPos *) rewrite (IH e inp pos Hc). reflexivity.
Qed.

(** * the implicit skip of a grammar whose WHITESPACE and COMMENT call no other rule *)
Section Skip.
Variable g : grammar.
Hypothesis Hok : skip_ok g = true.

Definition skipX : pexp := PChoice (PIdent "WHITESPACE") (PIdent "COMMENT").

Lemma skip_rule_terminates n inp pos :
  n = "WHITESPACE"%string \/ n = "COMMENT"%string ->
  exists f, run g f true (PIdent n) inp pos <> RFuel.
Proof.
  intros Hn. assert (Hr : skip_rule_ok g n = true).
  { unfold skip_ok in Hok. apply andb_true_iff in Hok as [H1 H2]. destruct Hn as [->| ->]; assumption. }
  unfold skip_rule_ok in Hr. destruct (glookup g n) as [[k body]|] eqn:El.
  - apply andb_true_iff in Hr as [Hk Hc].
    destruct (terminates_empty inp body true pos) as [f Hf]. exists (S f).
    destruct Hn as [->| ->]; cbn [run]; cbn [bool_decide decide_rel]; rewrite El;
      (replace (match k with RAtomic | RCompound => true | RNonAtomic => false | _ => true end) with true by (destruct k; try reflexivity; discriminate));
      rewrite (run_closed_eq g f body inp pos Hc); exact Hf.
  - exists 1%nat. destruct Hn as [->| ->]; cbn [run]; cbn [bool_decide decide_rel]; rewrite El; discriminate.
Qed.

Lemma skipX_terminates inp pos : exists f x, x <> RFuel /\ forall f', (f <= f')%nat -> run g f' true skipX inp pos = x.
Proof.
  destruct (skip_rule_terminates "WHITESPACE" inp pos (or_introl eq_refl)) as [f1 H1].
  destruct (skip_rule_terminates "COMMENT" inp pos (or_intror eq_refl)) as [f2 H2].
  pose proof (fun f' Hle => run_mono g f1 true _ inp pos _ eq_refl H1 f' Hle) as M1.
  pose proof (fun f' Hle => run_mono g f2 true _ inp pos _ eq_refl H2 f' Hle) as M2.
  exists (S (Nat.max f1 f2)).
  destruct (run g f1 true (PIdent "WHITESPACE") inp pos) as [r1 p1| |] eqn:E1; [| |congruence].
  - exists (RMatch r1 p1). split; [discriminate|]. intros f' Hf'. destruct f' as [|f'']; [lia|]. unfold skipX. cbn [run].
    rewrite (M1 f'') by lia. reflexivity.
  - destruct (run g f2 true (PIdent "COMMENT") inp pos) as [r2 p2| |] eqn:E2; [| |congruence].
    + exists (RMatch r2 p2). split; [discriminate|]. intros f' Hf'. destruct f' as [|f'']; [lia|]. unfold skipX. cbn [run].
      rewrite (M1 f'') by lia. rewrite (M2 f'') by lia. reflexivity.
    + exists RFail. split; [discriminate|]. intros f' Hf'. destruct f' as [|f'']; [lia|]. unfold skipX. cbn [run].
      rewrite (M1 f'') by lia. rewrite (M2 f'') by lia. reflexivity.
Qed.

Lemma skip_once_terminates : forall L inp pos, length inp = L -> exists f, run g f true (PRepOnce skipX) inp pos <> RFuel.
Proof.
  induction L as [L IHL] using lt_wf_ind. intros inp pos HLen.
  destruct (skipX_terminates inp pos) as [f1 [x1 [Hx1 Hf1]]].
  destruct x1 as [r1 p1| |]; [| |congruence].
  2:{ exists (S f1). cbn [run]. rewrite (Hf1 f1 (le_n _)). discriminate. }
  pose proof (run_adv g _ _ _ _ _ _ _ (Hf1 f1 (le_n _))) as A1.
  destruct (N.eq_dec p1 pos) as [E1|N1].
  - exists (S f1). cbn [run]. rewrite (Hf1 f1 (le_n _)). apply N.eqb_eq in E1. rewrite E1. discriminate.
  - destruct (adv_len _ _ _ _ A1) as (_ & Hlt & _). specialize (Hlt N1).
    destruct (IHL (length r1) ltac:(lia) r1 p1 eq_refl) as [f2 H2].
    pose proof (fun f' Hle => run_mono g f2 true _ r1 p1 _ eq_refl H2 f' Hle) as M2.
    exists (S (Nat.max f1 f2)). cbn [run]. rewrite (Hf1 (Nat.max f1 f2)) by lia.
    apply N.eqb_neq in N1. rewrite N1. rewrite (M2 (Nat.max f1 f2)) by lia.
    destruct (run g f2 true (PRepOnce skipX) r1 p1); [discriminate|discriminate|congruence].
Qed.

Lemma skip_terminates inp pos : exists f, run g f true skipE inp pos <> RFuel.
Proof.
  destruct (skipX_terminates inp pos) as [f1 [x1 [Hx1 Hf1]]]. unfold skipE. fold skipX.
  destruct x1 as [r1 p1| |]; [| |congruence].
  2:{ exists (S f1). cbn [run]. rewrite (Hf1 f1 (le_n _)). discriminate. }
  destruct (N.eq_dec p1 pos) as [E1|N1].
  - exists (S f1). cbn [run]. rewrite (Hf1 f1 (le_n _)). apply N.eqb_eq in E1. rewrite E1. discriminate.
  - destruct (skip_once_terminates (length r1) r1 p1 eq_refl) as [f2 H2].
    pose proof (fun f' Hle => run_mono g f2 true _ r1 p1 _ eq_refl H2 f' Hle) as M2.
    exists (S (Nat.max f1 f2)). cbn [run]. rewrite (Hf1 (Nat.max f1 f2)) by lia.
    apply N.eqb_neq in N1. rewrite N1. rewrite (M2 (Nat.max f1 f2)) by lia.
    destruct (run g f2 true (PRepOnce skipX) r1 p1); [discriminate|discriminate|congruence].
Qed.
End Skip.

(** * the theorem *)
Theorem checked_grammar_terminates g nl rk :
  nl_closed g nl = true -> rank_ok g nl rk = true -> skip_ok g = true ->
  forall a e inp pos, exists f, run g f a e inp pos <> RFuel.
Proof.
  intros H1 H2 H3 a e inp pos.
  exact (terminates g nl rk (nl_closed_spec g nl H1) (rank_ok_spec g nl rk H2) (skip_terminates g H3) inp e a pos).
Qed.

Corollary checked_grammar_decides g nl rk :
  nl_closed g nl = true -> rank_ok g nl rk = true -> skip_ok g = true ->
  forall start inp, exists f b, forall f', (f <= f')%nat -> accepts g f' start inp = Some b.
Proof.
  intros H1 H2 H3 start inp.
  destruct (checked_grammar_terminates g nl rk H1 H2 H3 false (PIdent start) inp 0%N) as [f Hf].
  pose proof (fun f' Hle => run_mono g f false _ inp 0%N _ eq_refl Hf f' Hle) as M.
  destruct (run g f false (PIdent start) inp 0) as [r p| |] eqn:E; [| |congruence].
  - exists f, true. intros f' Hle. unfold accepts. rewrite (M f' Hle). reflexivity.
  - exists f, false. intros f' Hle. unfold accepts. rewrite (M f' Hle). reflexivity.
Qed.

(** * a rank for a concrete grammar: the longest chain of first-position calls below a rule,
    computed by iteration (and then checked by [rank_ok], so that nothing rests on this code) *)
Definition rank_step (g : grammar) (nl : list string) (cur : list (string * nat)) : list (string * nat) :=
  map (fun r => (fst r,
                 S (list_max (map (fun m => match find (fun x => bool_decide (fst x = m)) cur with Some x => snd x | None => O end)
                                  (filter (fun m => defined g m) (first_calls nl (snd (snd r)))))))) g.
Definition rank_table (g : grammar) (nl : list string) : list (string * nat) :=
  iterate (length g) (rank_step g nl) (map (fun r => (fst r, O)) g).
Definition rank_of (tbl : list (string * nat)) (n : string) : nat :=
  match find (fun x => bool_decide (fst x = n)) tbl with Some x => snd x | None => O end.
