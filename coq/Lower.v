(** Lower.v — model of tx3_lang::lowering for the core of the language (and of the part of
    analyzing.rs that decides which symbol a name denotes): context-directed lowering of
    identifiers, record construction by case position and declaration order with spread by
    index, type-directed property access, asset constructors, the compiler built-ins, and the
    block-to-IR assembly. Written after the code; quirks included. *)
From Tx3 Require Export Base Tir Surface.

Inductive symbol :=
| SymFees
| SymParam (n : string) (t : sty)
| SymEnv (n : string) (t : sty)
| SymParty (n : string)
| SymPolicy (n : string) (hash : bytes)
| SymAsset (policy name : sexpr)
| SymLocal (e : sexpr)
| SymInput (i : sinput)
| SymOutput (idx : N)
| SymType (td : stypedef)
| SymFunction (n : string).

Record lctx := mk_lctx { is_asset : bool; is_datum : bool; is_address : bool }.
Definition ctx_default := mk_lctx false false false.
Definition ctx_asset := mk_lctx true false false.
Definition ctx_datum := mk_lctx false true false.
Definition ctx_address := mk_lctx false false true.

(** scopes are hash maps filled by successive inserts: the last entry of a name wins *)
Definition assoc {A} (k : string) (l : list (string * A)) : option A :=
  option_map snd (find (fun kv => bool_decide (fst kv = k)) (rev l)).
Definition find_last {A} (p : A -> bool) (l : list A) : option A := find p (rev l).

Fixpoint index_of_last_from {A} (p : A -> bool) (l : list A) (i : nat) (acc : option nat) : option nat :=
  match l with [] => acc | x :: r => index_of_last_from p r (S i) (if p x then Some i else acc) end.

Fixpoint index_of {A} (p : A -> bool) (l : list A) : option nat :=
  match l with [] => None | x :: r => if p x then Some O else option_map S (index_of p r) end.

Definition builtin_functions : list string := ["min_utxo"; "tip_slot"; "slot_to_time"; "time_to_slot"]%string.

(** Scope::resolve in the program scope (then the built-in functions): a later track_* call
    overwrites an earlier one *)
Definition resolve_prog (p : sprogram) (n : string) : option symbol :=
  match find_last (fun td => bool_decide (td_name td = n)) (sp_types p) with
  | Some td => Some (SymType td)
  | None =>
  match find_last (fun a => bool_decide (fst (fst a) = n)) (sp_assets p) with
  | Some a => Some (SymAsset (snd (fst a)) (snd a))
  | None =>
  if bool_decide (n = "Ada"%string) then Some (SymAsset SUnit SUnit) else    (* policy / name: DataExpr::None, see the asset constructor *)
  match assoc n (sp_policies p) with
  | Some h => Some (SymPolicy n h)
  | None =>
  if bool_decide (n ∈ sp_parties p) then Some (SymParty n) else
  match assoc n (sp_env p) with
  | Some ty => Some (SymEnv n ty)
  | None => if bool_decide (n ∈ builtin_functions) then Some (SymFunction n) else None
  end end end end.

(** Scope::resolve along the chain tx scope -> program scope -> built-in functions.
    Within the tx scope the later insertion wins: outputs, then inputs, then locals, then
    parameters, then `fees`. *)
Definition resolve (p : sprogram) (t : stx) (n : string) : option symbol :=
  match index_of_last_from (fun o => bool_decide (so_name o = Some n)) (st_outputs t) O None with
  | Some i => Some (SymOutput (N.of_nat i))
  | None =>
  match find_last (fun i => bool_decide (in_name i = n)) (st_inputs t) with
  | Some i => Some (SymInput i)
  | None =>
  match assoc n (st_locals t) with
  | Some e => Some (SymLocal e)
  | None =>
  match assoc n (st_params t) with
  | Some ty => Some (SymParam n ty)
  | None =>
  if bool_decide (n = "fees"%string) then Some SymFees else resolve_prog p n
  end end end end.

Fixpoint lower_ty (t : sty) : ty :=
  match t with
  | SInt => TInt | SBool => TBool | SBytes => TBytes | SAddress => TAddress | SUtxoRef => TUtxoRef
  | SAnyAsset => TAnyAsset | SUnitT => TUnit | SList _ => TList | SMap _ _ => TMap | SCustom n => TCustom n
  end.

(** Type::properties: the schema used for property access *)
Definition properties (p : sprogram) (t : sty) : list (string * sty) :=
  match t with
  | SAnyAsset => [("amount", SInt); ("policy", SBytes); ("asset_name", SBytes)]%string
  | SUtxoRef => [("tx_hash", SBytes); ("output_index", SInt)]%string
  | SCustom n =>
    match find_last (fun td => bool_decide (td_name td = n)) (sp_types p) with
    | Some td => match td_cases td with [(_, fields)] => fields | _ => [] end
    | None => []
    end
  | _ => []
  end.

Section Lower.
Variable p : sprogram.
Variable t : stx.

(** the static type the analyzer attaches to an expression (DataExpr::target_type). [d] is
    the number of symbol dereferences still backed by resolved identifiers (see [lower_expr]) *)
Definition sym_type (s : option symbol) : option sty :=
  match s with
  | Some (SymParam _ ty) => Some ty
  | Some (SymInput i) => in_datum_is i
  | _ => None
  end.

Definition field_type (ty : option sty) (f : string) : option sty :=
  match ty with Some ty => assoc f (properties p ty) | None => None end.

Fixpoint target_type (d : nat) (e : sexpr) : option sty :=
  match e with
  | SId n => match d with O => None | S _ => sym_type (resolve p t n) end
  | SNum _ => Some SInt
  | SBoolLit _ => Some SBool
  | SStr _ | SHex _ | SHexOdd => Some SBytes
  | SUnit => Some SUnitT
  | SRefLit _ _ => Some SUtxoRef
  | SAddE a _ | SSubE a _ | SConcat a _ | SNegE a => target_type d a
  | SPropE o f =>
    (* the type of the property identifier: a field of the operand's type, else whatever the
       name denotes in the enclosing scope *)
    match d with
    | O => None
    | S _ => match field_type (target_type d o) f with Some ty => Some ty | None => sym_type (resolve p t f) end
    end
  | SIndex _ idx => target_type d idx
  | SStruct _ _ _ _ => None
  | SListE xs => match xs with x :: _ => option_map SList (target_type d x) | [] => None end
  | SMapE kvs => match kvs with
                 | (k, v) :: _ => match target_type d k, target_type d v with Some a, Some b => Some (SMap a b) | _, _ => None end
                 | [] => None end
  | SAnyAssetE _ _ _ => Some SAnyAsset
  | SCall _ _ => None
  end.

Definition lower_error {A} (e : string) : outcome A := Err e.

(** DataExpr::into_lower. [fuel] bounds the depth of the expression (structural; OutOfFuel is
    a distinct error the theorems exclude). [d] models the analyzer's bounded resolution: the
    identifiers of the transaction body are resolved; the expression stored in the symbol of a
    local or of an input is a copy taken one analysis pass earlier, and after nine such
    dereferences the copy's identifiers carry no symbol (MissingAnalyzePhase). *)
Fixpoint lower_expr (fuel : nat) (d : nat) (c : lctx) (e : sexpr) {struct fuel} : outcome expr :=
  match fuel with
  | O => Err "OutOfFuel"
  | S f =>
    let lower_input (d' : nat) (i : sinput) (c : lctx) : outcome expr :=
      (* InputBlock::into_lower: from in address context, min_amount in asset context,
         ref in the context of the use site *)
      a <- match in_from i with Some x => lower_expr f d' ctx_address x | None => Ok ENone end ;;
      m <- match in_min i with Some x => lower_expr f d' ctx_asset x | None => Ok ENone end ;;
      r <- match in_ref i with Some x => lower_expr f d' c x | None => Ok ENone end ;;
      _r <- match in_redeemer i with Some x => lower_expr f d' ctx_datum x | None => Ok ENone end ;;
      Ok (EExpectInput (to_lower (in_name i)) a m r (in_many i) false) in
    match e with
    | SNum z => Ok (ENumber z)
    | SBoolLit b => Ok (EBool b)
    | SStr s => Ok (EString s)
    | SHex b => Ok (EBytes b)
    | SHexOdd => lower_error "DecodeHexError"
    | SUnit => Ok (EStruct 0 [])
    | SRefLit txid idx => Ok (EUtxoRefs [mk_ref txid (idx mod 2 ^ 32)%N])
    | SId n =>
      match d with
      | O => lower_error "MissingAnalyzePhase"
      | S d' =>
        match resolve p t n with
        | None => lower_error "MissingAnalyzePhase"
        | Some (SymParam n ty) => Ok (EExpectValue (to_lower n) (lower_ty ty))
        | Some (SymEnv n ty) => Ok (EExpectValue (to_lower n) (lower_ty ty))
        | Some (SymLocal x) => lower_expr f d' c x
        | Some (SymParty n) => Ok (EExpectValue (to_lower n) TAddress)
        | Some (SymInput i) =>
          inner <- lower_input d' i c ;;
          Ok (if is_asset c then EIntoAssets inner else if is_datum c then EIntoDatum inner else inner)
        | Some SymFees => Ok EExpectFees
        | Some (SymPolicy _ h) => Ok (if is_address c then EScriptAddr (EHash h) else EHash h)
        | Some (SymOutput i) => Ok (ENumber (Z.of_N i))
        | Some _ => Panic "lowering Identifier: todo!()"
        end
      end
    | SAddE a b => x <- lower_expr f d c a ;; y <- lower_expr f d c b ;; Ok (EAdd x y)
    | SSubE a b => x <- lower_expr f d c a ;; y <- lower_expr f d c b ;; Ok (ESub x y)
    | SNegE a => x <- lower_expr f d c a ;; Ok (ENegate x)
    | SConcat a b => x <- lower_expr f d c a ;; y <- lower_expr f d c b ;; Ok (EConcat x y)
    | SPropE o field =>
      obj <- lower_expr f d c o ;;
      match target_type d o with
      | None => lower_error "MissingAnalyzePhase"
      | Some ty =>
        match ty with
        | SAnyAsset | SUtxoRef | SCustom _ =>
          match index_of (fun kv => bool_decide (fst kv = field)) (properties p ty) with
          | Some i => Ok (EProperty obj (ENumber (Z.of_nat i)))
          | None => lower_error "InvalidProperty"
          end
        | SList _ =>
          (* `xs.n`: the property is an identifier; it indexes the list when it is an Int *)
          match target_type d (SId field) with
          | Some SInt => i <- lower_expr f d c (SId field) ;; Ok (EProperty obj i)
          | _ => lower_error "InvalidProperty"
          end
        | _ => lower_error "InvalidProperty"
        end
      end
    | SIndex o idx =>
      obj <- lower_expr f d c o ;;
      match target_type d o with
      | Some (SList _) =>
        match target_type d idx with
        | Some SInt => i <- lower_expr f d c idx ;; Ok (EProperty obj i)
        | _ => lower_error "InvalidProperty"
        end
      | Some (SAnyAsset | SUtxoRef | SCustom _) =>
        match idx, target_type d o with
        | SId fld, Some ty =>
          (* an identifier index on a record names one of its fields *)
          match index_of (fun kv => bool_decide (fst kv = fld)) (properties p ty) with
          | Some i => Ok (EProperty obj (ENumber (Z.of_nat i)))
          | None => lower_error "InvalidProperty"
          end
        | _, _ => lower_error "InvalidProperty"
        end
      | Some _ => lower_error "InvalidProperty"
      | None => lower_error "MissingAnalyzePhase"
      end
    | SStruct tyname case fields spread =>
      match d with
      | O => lower_error "InvalidSymbol"
      | S _ =>
      match resolve p t tyname with
      | Some (SymType td) =>
        let cname := from_option id "Default"%string case in
        match index_of (fun cs => bool_decide (fst cs = cname)) (td_cases td),
              option_map snd (find (fun cs => bool_decide (fst cs = cname)) (td_cases td)) with
        | Some ctor, Some decl =>
          fs <- (fix go (i : nat) (l : list (string * sty)) : outcome (list expr) :=
                   match l with
                   | [] => Ok []
                   | (fname, _) :: r =>
                     v <- match option_map snd (find (fun kv => bool_decide (fst kv = fname)) fields) with
                          | Some ve => lower_expr f d c ve
                          | None =>
                            match spread with
                            | Some s => st <- lower_expr f d c s ;; Ok (EProperty st (ENumber (Z.of_nat i)))
                            | None => Panic "spread must be set for missing explicit field"
                            end
                          end ;;
                     rest <- go (S i) r ;;
                     Ok (v :: rest)
                   end) O decl ;;
          Ok (EStruct (N.of_nat ctor) fs)
        | _, _ => lower_error "InvalidAst"
        end
      | _ => lower_error "InvalidSymbol"
      end
      end
    | SListE xs => ys <- omapM (lower_expr f d c) xs ;; Ok (EList ys)
    | SMapE kvs =>
      ps <- (fix go (l : list (sexpr * sexpr)) : outcome (list (expr * expr)) :=
               match l with
               | [] => Ok []
               | kv :: r => k <- lower_expr f d c (fst kv) ;; v <- lower_expr f d c (snd kv) ;; r' <- go r ;; Ok ((k, v) :: r')
               end) kvs ;;
      Ok (EMap ps)
    | SAnyAssetE pol name amt =>
      (* every operand in datum context *)
      x <- lower_expr f d ctx_datum pol ;; y <- lower_expr f d ctx_datum name ;; z <- lower_expr f d ctx_datum amt ;;
      Ok (EAssets [(x, y, z)])
    | SCall fn args =>
      if bool_decide (fn = "min_utxo"%string) then
        match args with [a] => x <- lower_expr f d c a ;; Ok (EMinUtxo x) | _ => lower_error "InvalidAst" end
      else if bool_decide (fn = "tip_slot"%string) then
        match args with [] => Ok ETipSlot | _ => lower_error "InvalidAst" end
      else if bool_decide (fn = "slot_to_time"%string) then
        match args with [a] => x <- lower_expr f d c a ;; Ok (ESlotToTime x) | _ => lower_error "InvalidAst" end
      else if bool_decide (fn = "time_to_slot"%string) then
        match args with [a] => x <- lower_expr f d c a ;; Ok (ETimeToSlot x) | _ => lower_error "InvalidAst" end
      else
        match d with
        | O => lower_error "InvalidAst"
        | S _ =>
        match resolve p t fn with
        | Some (SymAsset pol name) =>
          (* the definition's policy and name are literals (the analyzer requires Bytes) *)
          let part (x : sexpr) := match x with SUnit => Ok ENone | _ => lower_expr f d c x end in
          x <- part pol ;; y <- part name ;;
          match args with
          | a :: _ => z <- lower_expr f d c a ;; Ok (EAssets [(x, y, z)])
          | [] => Panic "asset constructor: args[0]"
          end
        | Some _ => lower_error "InvalidAst"
        | None => lower_error "InvalidAst"
        end
        end
    end
  end.

Definition lfuel : nat := 60.
Definition ldepth : nat := 9.
Definition lower_opt (c : lctx) (o : option sexpr) : outcome expr :=
  match o with Some e => lower_expr lfuel ldepth c e | None => Ok ENone end.

Definition lower_input_block (i : sinput) : outcome input :=
  a <- lower_opt ctx_address (in_from i) ;;
  m <- lower_opt ctx_asset (in_min i) ;;
  r <- lower_opt ctx_default (in_ref i) ;;
  red <- lower_opt ctx_datum (in_redeemer i) ;;
  Ok (mk_input (to_lower (in_name i))
               (EExpectInput (to_lower (in_name i)) a m r (in_many i) false) red).

Definition lower_output_block (o : soutput) : outcome output :=
  a <- lower_opt ctx_address (so_to o) ;;
  d <- lower_opt ctx_datum (so_datum o) ;;
  m <- lower_opt ctx_asset (so_amount o) ;;
  Ok (mk_output a d m (so_optional o)).

Definition lower_mint (m : smint) : outcome mint :=
  a <- lower_opt ctx_default (sm_amount m) ;; r <- lower_opt ctx_default (sm_redeemer m) ;; Ok (mk_mint a r).

Definition lower_collateral (c : option sexpr * option sexpr * option sexpr) : outcome expr :=
  a <- lower_opt ctx_default (fst (fst c)) ;;
  m <- lower_opt ctx_default (snd (fst c)) ;;
  r <- lower_opt ctx_default (snd c) ;;
  Ok (EExpectInput "collateral" a m r false true).

(** key order of a directive's data (the IR type is a hash map; the canonical view sorts it) *)
Fixpoint str_insert (k : string) (v : expr) (l : list (string * expr)) : list (string * expr) :=
  match l with
  | [] => [(k, v)]
  | (k', v') :: r =>
    if bool_decide (k = k') then (k, v) :: r          (* HashMap::from / collect: a later entry replaces *)
    else if String.ltb k k' then (k, v) :: l else (k', v') :: str_insert k v r
  end.
Definition data_map (l : list (string * expr)) : list (string * expr) :=
  fold_left (fun acc kv => str_insert (fst kv) (snd kv) acc) l [].

Definition lower_directive (d : sdirective) : outcome adhoc :=
  match d with
  | DWithdrawal from amount redeemer =>
    match from with
    | None => lower_error "MissingRequiredField"
    | Some fe =>
      cred <- lower_expr lfuel ldepth ctx_default fe ;;
      match amount with
      | None => lower_error "MissingRequiredField"
      | Some ae =>
        amt <- lower_expr lfuel ldepth ctx_default ae ;;
        red <- lower_opt ctx_default redeemer ;;
        Ok (mk_adhoc "withdrawal" (data_map [("credential"%string, cred); ("amount"%string, amt); ("redeemer"%string, red)]))
      end
    end
  | DPlutusWitness version script =>
    v <- option_mapM (lower_expr lfuel ldepth ctx_default) version ;;
    sc <- option_mapM (lower_expr lfuel ldepth ctx_default) script ;;
    Ok (mk_adhoc "plutus_witness"
                 (data_map (from_option (fun x => [("version"%string, x)]) [] v ++ from_option (fun x => [("script"%string, x)]) [] sc)))
  | DNativeWitness script =>
    sc <- option_mapM (lower_expr lfuel ldepth ctx_default) script ;;
    Ok (mk_adhoc "native_witness" (data_map (from_option (fun x => [("script"%string, x)]) [] sc)))
  | DDonation coin =>
    c <- lower_expr lfuel ldepth ctx_default coin ;;
    Ok (mk_adhoc "treasury_donation" [("coin"%string, c)])
  | DPublish to amount datum version script =>
    a <- option_mapM (lower_expr lfuel ldepth ctx_address) to ;;
    m <- option_mapM (lower_expr lfuel ldepth ctx_asset) amount ;;
    dd <- option_mapM (lower_expr lfuel ldepth ctx_datum) datum ;;
    v <- option_mapM (lower_expr lfuel ldepth ctx_default) version ;;
    sc <- option_mapM (lower_expr lfuel ldepth ctx_default) script ;;
    Ok (mk_adhoc "cardano_publish"
                 (data_map (from_option (fun x => [("to"%string, x)]) [] a ++ from_option (fun x => [("amount"%string, x)]) [] m
                            ++ from_option (fun x => [("datum"%string, x)]) [] dd ++ from_option (fun x => [("version"%string, x)]) [] v
                            ++ from_option (fun x => [("script"%string, x)]) [] sc)))
  | DVoteDelegation drep stake =>
    dr <- lower_expr lfuel ldepth ctx_default drep ;;
    st <- lower_expr lfuel ldepth ctx_default stake ;;
    Ok (mk_adhoc "vote_delegation_certificate" (data_map [("drep"%string, dr); ("stake"%string, st)]))
  end.

(** TxDef::into_lower *)
Definition lower_tx : outcome tx :=
  refs <- omapM (fun r => lower_expr lfuel ldepth ctx_default (snd r)) (st_references t) ;;
  ins <- omapM lower_input_block (st_inputs t) ;;
  outs <- omapM lower_output_block (st_outputs t) ;;
  val <- match st_validity t with
         | Some (since, until) =>
           s <- lower_opt ctx_default since ;; u <- lower_opt ctx_default until ;; Ok (Some (mk_validity s u))
         | None => Ok None
         end ;;
  mints <- omapM lower_mint (st_mints t) ;;
  burns <- omapM lower_mint (st_burns t) ;;
  adh <- omapM lower_directive (st_directives t) ;;
  coll <- omapM lower_collateral (st_collateral t) ;;
  sig <- match st_signers t with
         | Some ss => xs <- omapM (lower_expr lfuel ldepth ctx_default) ss ;; Ok (Some xs)
         | None => Ok None
         end ;;
  md <- match st_metadata t with
        | Some kvs => omapM (fun kv => k <- lower_expr lfuel ldepth ctx_default (fst kv) ;; v <- lower_expr lfuel ldepth ctx_default (snd kv) ;;
                                       Ok (mk_metadata k v)) kvs
        | None => Ok []
        end ;;
  Ok (mk_tx EExpectFees refs ins outs val mints burns adh coll sig md).
End Lower.

Definition lower (p : sprogram) (name : string) : outcome tx :=
  match find (fun t => bool_decide (st_name t = name)) (sp_txs p) with
  | Some t => lower_tx p t
  | None => Err "InvalidAst"
  end.
