(** Select_complete.v — every UTxO the property counts as a candidate of an input block reaches
    coin selection: through narrow_search_space, the window, the ignore filter, the fetch and
    the constraint filter (C03, "finds a match if one exists"). *)
From Tx3 Require Import Base Assets Assets_proofs Select Select_proofs Select_flat.

Lemma nodupb_spec {A} `{EqDecision A} (l : list A) : nodupb l = true -> NoDup l.
Proof.
  induction l as [|x l IH]; cbn; intros H; [constructor|].
  apply andb_true_iff in H as [H1 H2]. constructor; [|apply IH; exact H2].
  intros Hin. unfold mem in H1. rewrite bool_decide_eq_true_2 in H1 by exact Hin. discriminate H1.
Qed.
Lemma NoDup_map_filter_ref (P : utxo -> Prop) `{forall x, Decision (P x)} (l : list utxo) :
  NoDup (map u_ref l) -> NoDup (map u_ref (filter P l)).
Proof. apply NoDup_map_filter. Qed.

(** membership in a subset, read as a constraint (intersection side) or as a supply (union side) *)
Definition Isem (s : subset) (r : utxo_ref) : Prop :=
  match s with Specific l => r ∈ l | _ => True end.
Definition Usem (s : subset) (r : utxo_ref) : Prop :=
  match s with Specific l => r ∈ l | All => True | NotSet => False end.
Definition is_specific (s : subset) : bool := match s with Specific _ => true | _ => false end.

Lemma Isem_inter a b r : Isem (s_inter a b) r <-> Isem a r /\ Isem b r.
Proof.
  destruct a as [| |l1], b as [| |l2]; cbn; try tauto.
  rewrite elem_of_list_intersection. tauto.
Qed.
Lemma Usem_union_l a b r : Usem a r -> Usem (s_union a b) r.
Proof.
  destruct a as [| |l1], b as [| |l2]; cbn; try tauto.
  rewrite elem_of_list_union. tauto.
Qed.
Lemma specific_union a b : is_specific a = true -> is_specific b = true -> is_specific (s_union a b) = true.
Proof. destruct a, b; cbn; try discriminate; reflexivity. Qed.
Lemma specific_inter_r a l : is_specific (s_inter a (Specific l)) = true.
Proof. destruct a; reflexivity. Qed.

Lemma Usem_specific s r : is_specific s = true -> Usem s r -> r ∈ s_list s.
Proof. destruct s; cbn; try discriminate; tauto. Qed.
Lemma Isem_specific s r : is_specific s = true -> Isem s r -> r ∈ s_list s.
Proof. destruct s; cbn; try discriminate; tauto. Qed.

Section Narrow.
Variable st : store.
Variable parent : subset.
Variable r : utxo_ref.

Definition step (sp : space) (kv : asset_class * Z) : space :=
  if 0 <? kv.2 then include_subset sp (narrow_by_class st parent kv.1) else sp.

Lemma fold_union_mono l : forall sp, Usem (sp_union sp) r -> Usem (sp_union (fold_left step l sp)) r.
Proof.
  induction l as [|kv l IH]; intros sp H; [exact H|]. cbn [fold_left]. apply IH.
  unfold step. destruct (0 <? kv.2); [|exact H]. cbn. apply Usem_union_l. exact H.
Qed.

Lemma narrow_by_class_specific c : is_specific parent = true -> is_specific (narrow_by_class st parent c) = true.
Proof. intros H. destruct c; cbn; try exact H. apply specific_inter_r. Qed.

Lemma fold_union_specific l : is_specific parent = true ->
  forall sp, is_specific (sp_union sp) = true -> is_specific (sp_union (fold_left step l sp)) = true.
Proof.
  intros Hp. induction l as [|kv l IH]; intros sp H; [exact H|]. cbn [fold_left]. apply IH.
  unfold step. destruct (0 <? kv.2); [|exact H]. cbn. apply specific_union; [exact H|apply narrow_by_class_specific; exact Hp].
Qed.

Lemma fold_inter l :
  (forall kv, kv ∈ l -> 0 < kv.2 -> Isem (narrow_by_class st parent kv.1) r) ->
  forall sp, Isem (sp_inter sp) r -> Isem (sp_inter (fold_left step l sp)) r.
Proof.
  induction l as [|kv l IH]; intros Hl sp H; [exact H|]. cbn [fold_left]. apply IH.
  - intros kv' Hin. apply Hl. right. exact Hin.
  - unfold step. destruct (0 <? kv.2) eqn:E; [|exact H]. cbn. apply Isem_inter. split; [exact H|].
    apply Hl; [left|]. apply Z.ltb_lt. exact E.
Qed.
End Narrow.

Lemma by_address_elem st a u : u ∈ st -> u_addr u = a -> u_ref u ∈ by_address st a.
Proof.
  intros Hu Ha. unfold by_address. apply elem_of_list_fmap. exists u. split; [reflexivity|].
  apply elem_of_list_filter. split; assumption.
Qed.
Lemma by_asset_elem st p n u : u ∈ st -> 0 < get0 (u_assets u) (Defined p n) -> u_ref u ∈ by_asset st p n.
Proof.
  intros Hu Ha. unfold by_asset. apply elem_of_list_fmap. exists u. split; [reflexivity|].
  apply elem_of_list_filter. split; assumption.
Qed.

(** where narrow puts a candidate: in the intersection when the query has neither address nor
    references (it then holds every requested token), in the union otherwise *)
Theorem narrow_keeps_candidates st q ign sp u :
  narrow st q = Ok sp -> spec_candidate st q ign u ->
  u_ref u ∈ s_list (sp_inter sp) \/ u_ref u ∈ s_list (sp_union sp).
Proof.
  unfold narrow. intros H (Hst & Hign & Haddr & Hrefs & Hcoll & Htok).
  set (parent := match q_addr q with Some a => Specific (by_address st a) | None => All end) in *.
  set (sp1 := include_subset (mk_space NotSet NotSet) parent) in *.
  set (sp2 := match q_min q with None => sp1 | Some m => fold_left _ (map_to_list m) sp1 end) in *.
  set (sp3 := match q_refs q with [] => sp2 | rs => mk_space (Specific rs) (s_inter (sp_inter sp2) (Specific rs)) end) in *.
  destruct (is_constrained sp3) eqn:Ec; [|discriminate]. injection H as <-.
  assert (Hsp1 : sp1 = mk_space parent parent) by (subst sp1; destruct parent; reflexivity).
  destruct (q_refs q) as [|r0 rs] eqn:Er.
  2:{ (* references: they are the union *) right. subst sp3. cbn. exact Hrefs. }
  destruct (q_addr q) as [a|] eqn:Ea.
  - (* an address: the candidate is supplied by the union *)
    right. assert (Hp : is_specific parent = true) by reflexivity.
    assert (Hu1 : Usem (sp_union sp1) (u_ref u)).
    { rewrite Hsp1. cbn. apply by_address_elem; assumption. }
    subst sp3. apply Usem_specific.
    + subst sp2. destruct (q_min q) as [m|]; [|rewrite Hsp1; exact Hp].
      apply (fold_union_specific st parent); [exact Hp|rewrite Hsp1; exact Hp].
    + subst sp2. destruct (q_min q) as [m|]; [|exact Hu1]. apply (fold_union_mono st parent). exact Hu1.
  - (* neither: the candidate satisfies every constraint of the intersection *)
    left. subst sp3. apply Isem_specific.
    { unfold is_constrained in Ec. destruct (sp_inter sp2); try discriminate. reflexivity. }
    assert (Hi1 : Isem (sp_inter sp1) (u_ref u)) by (rewrite Hsp1; exact I).
    subst sp2. destruct (q_min q) as [m|] eqn:Em; [|exact Hi1].
    apply (fold_inter st parent); [|exact Hi1].
    intros [c z] Hin Hz. cbn [fst snd] in *. destruct c as [|n|p n]; cbn; try exact I.
    apply by_asset_elem; [exact Hst|].
    apply (Htok eq_refl eq_refl). unfold target_of. rewrite Em. cbn.
    apply elem_of_map_to_list in Hin. unfold get0. rewrite Hin. exact Hz.
Qed.

(** when the window is not exceeded, the top-up takes all of union∖intersection *)
Lemma fill_takes_all sp fill x :
  fill_ok sp window fill = true ->
  (length (s_list (sp_inter sp)) + length (take_diff sp) <= window)%nat ->
  x ∈ take_diff sp -> x ∈ fill.
Proof.
  unfold fill_ok. intros Hf Hw Hx.
  assert (Hne : (0 < length (take_diff sp))%nat).
  { destruct (take_diff sp); [apply elem_of_nil in Hx; contradiction|cbn; lia]. }
  destruct (length (s_list (sp_inter sp)) <? window)%nat eqn:El; [|apply Nat.ltb_ge in El; lia].
  apply andb_true_iff in Hf as [Hf Hlen]. apply andb_true_iff in Hf as [Hnd Hsub].
  apply Nat.eqb_eq in Hlen. rewrite Nat.min_r in Hlen by lia.
  assert (Hnd' : NoDup fill) by (apply nodupb_spec; exact Hnd).
  assert (Hsub' : forall y, y ∈ fill -> y ∈ take_diff sp).
  { intros y Hy. rewrite forallb_forall in Hsub. apply elem_of_list_In in Hy. specialize (Hsub _ Hy).
    unfold mem in Hsub. apply bool_decide_eq_true in Hsub. exact Hsub. }
  assert (Hp : fill ≡ₚ take_diff sp).
  { apply submseteq_Permutation_length_le; [lia|apply NoDup_submseteq; assumption]. }
  rewrite Hp. exact Hx.
Qed.

Theorem candidates_reach_selection st q ign fill sp u :
  narrow st q = Ok sp -> fill_ok sp window fill = true ->
  (length (s_list (sp_inter sp)) + length (take_diff sp) <= window)%nat ->
  spec_candidate st q ign u -> u ∈ fetched_cands st sp q ign fill.
Proof.
  intros Hn Hf Hw Hc. pose proof (narrow_keeps_candidates st q ign sp u Hn Hc) as Hin.
  destruct Hc as (Hst & Hign & Haddr & Hrefs & Hcoll & Htok).
  assert (Ht : u_ref u ∈ take_space sp window fill).
  { unfold take_space.
    destruct (decide (u_ref u ∈ s_list (sp_inter sp))) as [Hb|Hb].
    - destruct (_ <? _)%nat; [apply elem_of_app; left|]; exact Hb.
    - destruct Hin as [Hin|Hin]; [contradiction|].
      assert (Hd : u_ref u ∈ take_diff sp) by (unfold take_diff; apply elem_of_list_difference; split; assumption).
      pose proof (fill_takes_all sp fill _ Hf Hw Hd) as Hfl.
      destruct (length (s_list (sp_inter sp)) <? window)%nat eqn:El.
      + apply elem_of_app. right. exact Hfl.
      + apply Nat.ltb_ge in El. destruct (take_diff sp); [apply elem_of_nil in Hd; contradiction|cbn in Hw; lia]. }
  unfold fetched_cands. apply elem_of_list_filter. split.
  - apply meets_spec. split; assumption.
  - assert (Hfe : u ∈ fetch st (filter (fun r => r ∉ ign) (take_space sp window fill))).
    { unfold fetch. apply elem_of_list_filter. split; [|exact Hst]. apply elem_of_list_filter. split; assumption. }
    destruct (q_coll q) eqn:Ecoll; [|exact Hfe].
    apply elem_of_list_filter. split; [apply Hcoll; reflexivity|exact Hfe].
Qed.

(** ... and so a single-UTxO block is served whenever some candidate covers the amount alone *)
Lemma order_by_complete ord l u :
  NoDup (map u_ref l) -> u ∈ l -> u_ref u ∈ ord -> u ∈ order_by ord l.
Proof.
  intros Hnd Hu Hr. unfold order_by. apply elem_of_list_omap. exists (u_ref u). split; [exact Hr|].
  destruct (find (fun x => bool_decide (u_ref x = u_ref u)) l) as [v|] eqn:Ef.
  - apply find_some in Ef as [Hv Heq]. apply bool_decide_eq_true in Heq. f_equal.
    apply elem_of_list_In in Hv. clear -Hnd Hu Hv Heq.
    induction l as [|x l IH]; [apply elem_of_nil in Hu; contradiction|].
    cbn in Hnd. apply NoDup_cons in Hnd as [Hx Hnd].
    apply elem_of_cons in Hu as [->|Hu]; apply elem_of_cons in Hv as [->|Hv]; try reflexivity.
    + exfalso. apply Hx. rewrite <- Heq. apply elem_of_list_fmap. exists v. split; [reflexivity|exact Hv].
    + exfalso. apply Hx. rewrite Heq. apply elem_of_list_fmap. exists u. split; [reflexivity|exact Hu].
    + apply IH; assumption.
  - exfalso. apply elem_of_list_In in Hu. eapply find_none in Ef; [|exact Hu]. cbn in Ef.
    apply bool_decide_eq_false in Ef. apply Ef. reflexivity.
Qed.

Theorem single_block_served st q ign o sp u :
  wf_store st -> q_many q = false ->
  narrow st q = Ok sp -> fill_ok sp window (o_fill o) = true ->
  (length (s_list (sp_inter sp)) + length (take_diff sp) <= window)%nat ->
  order_ok (o_sorted o) (fetched_cands st sp q ign (o_fill o)) = true ->
  spec_candidate st q ign u -> contains_total (u_assets u) (target_of q) = true ->
  select st sp q ign o <> [].
Proof.
  intros Hwf Hm Hn Hf Hw Ho Hc Hcov. unfold select. rewrite Hm.
  apply pick_single_complete. exists u. split; [|exact Hcov].
  pose proof (candidates_reach_selection st q ign (o_fill o) sp u Hn Hf Hw Hc) as Hin.
  assert (Hnd : NoDup (map u_ref (fetched_cands st sp q ign (o_fill o)))).
  { unfold fetched_cands, fetch. apply NoDup_map_filter_ref.
    destruct (q_coll q); [apply NoDup_map_filter_ref|]; apply NoDup_map_filter_ref; exact Hwf. }
  apply order_by_complete; [exact Hnd|exact Hin|].
  (* the order oracle lists every candidate: same length, no repetition, all among the candidates *)
  unfold order_ok in Ho. apply andb_true_iff in Ho as [Ho Hsub]. apply andb_true_iff in Ho as [Hlen Hndo].
  apply Nat.eqb_eq in Hlen. apply nodupb_spec in Hndo.
  assert (Hsub' : forall y, y ∈ o_sorted o -> y ∈ map u_ref (fetched_cands st sp q ign (o_fill o))).
  { intros y Hy. rewrite forallb_forall in Hsub. apply elem_of_list_In in Hy. specialize (Hsub _ Hy).
    unfold mem in Hsub. apply bool_decide_eq_true in Hsub. exact Hsub. }
  assert (Hp : o_sorted o ≡ₚ map u_ref (fetched_cands st sp q ign (o_fill o))).
  { apply submseteq_Permutation_length_le; [rewrite map_length; lia|apply NoDup_submseteq; assumption]. }
  rewrite Hp. apply elem_of_list_fmap. exists u. split; [reflexivity|exact Hin].
Qed.

(** * the converse: everything handed to coin selection is a candidate of the property *)
Section NarrowBack.
Variable st : store.
Variable parent : subset.
Variable r : utxo_ref.

Lemma fold_inter_back l : forall sp,
  Isem (sp_inter (fold_left (step st parent) l sp)) r ->
  Isem (sp_inter sp) r /\ forall kv, kv ∈ l -> 0 < kv.2 -> Isem (narrow_by_class st parent kv.1) r.
Proof.
  induction l as [|kv l IH]; intros sp H; cbn [fold_left] in H.
  - split; [exact H|]. intros kv Hin. apply elem_of_nil in Hin. contradiction.
  - apply IH in H as [H1 H2]. unfold step in H1. destruct (0 <? kv.2) eqn:E.
    + cbn in H1. apply Isem_inter in H1 as [Ha Hb]. split; [exact Ha|].
      intros kv' Hin Hz. apply elem_of_cons in Hin as [->|Hin]; [exact Hb|apply H2; assumption].
    + split; [exact H1|]. intros kv' Hin Hz. apply elem_of_cons in Hin as [->|Hin]; [|apply H2; assumption].
      apply Z.ltb_ge in E. lia.
Qed.

Lemma fold_union_all l : forall sp, sp_union sp = All -> sp_union (fold_left (step st parent) l sp) = All.
Proof.
  induction l as [|kv l IH]; intros sp H; [exact H|]. cbn [fold_left]. apply IH.
  unfold step. destruct (0 <? kv.2); [|exact H]. cbn. rewrite H. destruct (narrow_by_class st parent kv.1); reflexivity.
Qed.
End NarrowBack.

Lemma by_asset_back st p n u : wf_store st -> u ∈ st -> u_ref u ∈ by_asset st p n -> 0 < get0 (u_assets u) (Defined p n).
Proof.
  intros Hwf Hu Hin. unfold by_asset in Hin. apply elem_of_list_fmap in Hin as [v [Hr Hv]].
  apply elem_of_list_filter in Hv as [Hpos Hv].
  assert (v = u) as <-; [|exact Hpos].
  clear -Hwf Hu Hv Hr. unfold wf_store in Hwf. induction st as [|x l IH]; [apply elem_of_nil in Hu; contradiction|].
  cbn in Hwf. apply NoDup_cons in Hwf as [Hx Hnd].
  apply elem_of_cons in Hu as [->|Hu]; apply elem_of_cons in Hv as [->|Hv]; try reflexivity.
  - exfalso. apply Hx. rewrite Hr. apply elem_of_list_fmap. exists v. split; [reflexivity|exact Hv].
  - exfalso. apply Hx. rewrite <- Hr. apply elem_of_list_fmap. exists u. split; [reflexivity|exact Hu].
  - apply IH; assumption.
Qed.

Theorem fetched_are_candidates st q ign fill sp u :
  wf_store st -> narrow st q = Ok sp -> fill_ok sp window fill = true ->
  u ∈ fetched_cands st sp q ign fill -> spec_candidate st q ign u.
Proof.
  intros Hwf Hn Hf Hin. unfold fetched_cands in Hin.
  apply elem_of_list_filter in Hin as [Hm Hin]. apply meets_spec in Hm as [Haddr Hrefs].
  assert (Hfe : u ∈ fetch st (filter (fun r => r ∉ ign) (take_space sp window fill)) /\
                (q_coll q = true -> is_only_naked (u_assets u) = true)).
  { destruct (q_coll q); [apply elem_of_list_filter in Hin as [Hc Hin]; split; [exact Hin|intros _; exact Hc]|].
    split; [exact Hin|discriminate]. }
  destruct Hfe as [Hfe Hcoll]. unfold fetch in Hfe. apply elem_of_list_filter in Hfe as [Hr Hst].
  apply elem_of_list_filter in Hr as [Hign Ht].
  repeat split; try assumption.
  (* a query without address: what was taken lies in the intersection, hence holds every token *)
  intros Ea Er p n Hpos. unfold narrow in Hn. rewrite Ea, Er in Hn.
  set (sp1 := include_subset (mk_space NotSet NotSet) All) in *.
  set (sp2 := match q_min q with None => sp1 | Some m => fold_left _ (map_to_list m) sp1 end) in *.
  set (sp3 := sp2) in *.
  destruct (is_constrained sp3) eqn:Ec; [|discriminate]. injection Hn as <-.
  assert (Hu2 : sp_union sp2 = All).
  { subst sp2. destruct (q_min q); [apply (fold_union_all st All); reflexivity|reflexivity]. }
  assert (Hu3 : s_list (sp_union sp3) = []).
  { subst sp3. rewrite Hu2. reflexivity. }
  assert (Hdiff : take_diff sp3 = []) by (unfold take_diff; rewrite Hu3; reflexivity).
  assert (Hfill : fill = []).
  { unfold fill_ok in Hf. rewrite Hdiff in Hf. destruct (_ <? _)%nat.
    - apply andb_true_iff in Hf as [_ Hl]. apply Nat.eqb_eq in Hl. rewrite Nat.min_0_r in Hl.
      destruct fill; [reflexivity|discriminate].
    - destruct fill; [reflexivity|discriminate]. }
  assert (Hbest : u_ref u ∈ s_list (sp_inter sp3)).
  { unfold take_space in Ht. rewrite Hfill in Ht. destruct (_ <? _)%nat; [rewrite app_nil_r in Ht|]; exact Ht. }
  assert (Hi3 : Isem (sp_inter sp3) (u_ref u)).
  { unfold is_constrained in Ec. destruct (sp_inter sp3); try discriminate. exact Hbest. }
  assert (Hi2 : Isem (sp_inter sp2) (u_ref u)) by exact Hi3.
  unfold target_of in Hpos. destruct (q_min q) as [m|] eqn:Em; [|cbn in Hpos; rewrite get0_empty in Hpos; lia].
  cbn in Hpos. subst sp2. apply (fold_inter_back st All) in Hi2 as [_ Hall].
  unfold get0 in Hpos. destruct (m !! Defined p n) as [z|] eqn:El; [|cbn in Hpos; lia]. cbn in Hpos.
  specialize (Hall (Defined p n, z)). cbn in Hall.
  apply (by_asset_back st p n u Hwf Hst). apply Hall; [apply elem_of_map_to_list; exact El|exact Hpos].
Qed.

(** what coin selection is handed is exactly what the property calls the block's candidates
    (as long as the window is not exceeded) *)
Theorem fetched_iff_candidate st q ign fill sp u :
  wf_store st -> narrow st q = Ok sp -> fill_ok sp window fill = true ->
  (length (s_list (sp_inter sp)) + length (take_diff sp) <= window)%nat ->
  (u ∈ fetched_cands st sp q ign fill <-> spec_candidate st q ign u).
Proof.
  intros Hwf Hn Hf Hw. split; [apply fetched_are_candidates; assumption|apply candidates_reach_selection; assumption].
Qed.

(** * `many` blocks: served whenever the candidates together cover the requested amount *)
Lemma order_by_perm ord l :
  NoDup (map u_ref l) -> order_ok ord l = true -> order_by ord l ≡ₚ l.
Proof.
  intros Hnd Ho. unfold order_ok in Ho. apply andb_true_iff in Ho as [Ho Hsub]. apply andb_true_iff in Ho as [Hlen Hndo].
  apply Nat.eqb_eq in Hlen. apply nodupb_spec in Hndo.
  assert (Hsub' : forall y, y ∈ ord -> y ∈ map u_ref l).
  { intros y Hy. rewrite forallb_forall in Hsub. apply elem_of_list_In in Hy. specialize (Hsub _ Hy).
    unfold mem in Hsub. apply bool_decide_eq_true in Hsub. exact Hsub. }
  assert (Hp : ord ≡ₚ map u_ref l).
  { apply submseteq_Permutation_length_le; [rewrite map_length; lia|apply NoDup_submseteq; assumption]. }
  apply NoDup_Permutation.
  - eapply NoDup_fmap_1. apply (Select_proofs.order_by_nodup ord l Hndo).
  - eapply NoDup_fmap_1. exact Hnd.
  - intros u. split.
    + apply order_by_elem.
    + intros Hu. apply order_by_complete; [exact Hnd|exact Hu|]. rewrite Hp. apply elem_of_list_fmap. exists u. split; [reflexivity|exact Hu].
Qed.

Theorem many_block_served st q ign o sp :
  wf_store st -> store_nonneg st -> q_many q = true ->
  narrow st q = Ok sp ->
  order_ok (o_sorted o) (fetched_cands st sp q ign (o_fill o)) = true ->
  nonneg (target_of q) ->
  fetched_cands st sp q ign (o_fill o) <> [] ->
  (forall k, get0 (target_of q) k <= get0 (total (fetched_cands st sp q ign (o_fill o))) k) ->
  select st sp q ign o <> [].
Proof.
  intros Hwf Hnn Hm Hn Ho Ht Hne Hcov. unfold select. rewrite Hm.
  set (fetched := fetched_cands st sp q ign (o_fill o)) in *.
  assert (Hnd : NoDup (map u_ref fetched)).
  { unfold fetched, fetched_cands, fetch. apply NoDup_map_filter_ref.
    destruct (q_coll q); [apply NoDup_map_filter_ref|]; apply NoDup_map_filter_ref; exact Hwf. }
  pose proof (order_by_perm (o_sorted o) fetched Hnd Ho) as Hp.
  assert (Hst : forall u, u ∈ fetched -> u ∈ st).
  { intros u Hu. unfold fetched, fetched_cands in Hu. apply elem_of_list_filter in Hu as [_ Hu].
    destruct (q_coll q); [apply elem_of_list_filter in Hu as [_ Hu]|]; unfold fetch in Hu; apply elem_of_list_filter in Hu as [_ Hu]; exact Hu. }
  apply pick_many_complete.
  - rewrite Hp. exact Hnd.
  - intros u Hu. apply Hnn, Hst. rewrite <- Hp. exact Hu.
  - exact Ht.
  - intros E. apply Hne. rewrite E in Hp. apply Permutation_nil in Hp. exact Hp.
  - intros k. specialize (Hcov k). unfold total in *.
    assert (Hs : a_sum (map u_assets (order_by (o_sorted o) fetched)) ≈ a_sum (map u_assets fetched)).
    { apply a_sum_perm. apply fmap_Permutation. exact Hp. }
    rewrite (Hs k). exact Hcov.
Qed.
