(** Compile.v — model of tx3_cardano::compile (compile/mod.rs, compile/asset_math.rs,
    coercion.rs): a constant IR transaction to an abstract Conway transaction [atx], the
    decoded view of what the implementation emits. Every conversion is written as the code
    has it on the current tree; panics are explicit outcomes. Address parsing, bech32 and the
    address-to-credential projections of pallas are oracle arguments. *)
From Tx3 Require Export Base Tir Reduce PlutusData Interop.

Inductive metadatum := MInt (z : Z) | MText (b : bytes) | MBytes (b : bytes).
Global Instance metadatum_eq_dec : EqDecision metadatum.
Proof. solve_decision. Defined.

Record aout := mk_aout {
  ao_addr : bytes;
  ao_coin : Z;
  ao_assets : list (bytes * list (bytes * Z));       (* policy -> name -> amount, both sorted *)
  ao_datum : option (list N);                         (* inline datum, encoded *)
  ao_script : option (N * bytes) }.                   (* reference script: language, bytes *)
Global Instance aout_eq_dec : EqDecision aout.
Proof. solve_decision. Defined.

Record ared := mk_ared { rd_tag : N; rd_index : Z; rd_data : list N }.
Global Instance ared_eq_dec : EqDecision ared.
Proof. solve_decision. Defined.

Record atx := mk_atx {
  a_inputs : list (bytes * Z);
  a_outputs : list aout;
  a_fee : Z;
  a_mint : option (list (bytes * list (bytes * Z)));
  a_ttl : option Z;
  a_start : option Z;
  a_withdrawals : option (list (bytes * Z));
  a_donation : option Z;
  a_signers : option (list bytes);
  a_refs : option (list (bytes * Z));
  a_collateral : option (list (bytes * Z));
  a_network : N;
  a_redeemers : option (list ared);                   (* sorted by (tag, index) *)
  a_metadata : option (list (Z * metadatum));         (* sorted by key *)
  a_native_scripts : list bytes;
  a_plutus : list (N * bytes);                        (* language version, script *)
  a_has_script_data_hash : bool;
  a_has_aux_hash : bool }.
Global Instance atx_eq_dec : EqDecision atx.
Proof. solve_decision. Defined.

(** * sorted association lists standing for BTreeMap *)
Section BT.
Context {V : Type}.
Fixpoint bt_put (k : bytes) (v : V) (l : list (bytes * V)) : list (bytes * V) :=
  match l with
  | [] => [(k, v)]
  | (k', v') :: r =>
    if bool_decide (k = k') then (k, v) :: r
    else if bytes_ltb k k' then (k, v) :: l else (k', v') :: bt_put k v r
  end.
Definition bt_get (k : bytes) (l : list (bytes * V)) : option V :=
  option_map snd (find (fun kv => bool_decide (fst kv = k)) l).
Definition bt_del (k : bytes) (l : list (bytes * V)) : list (bytes * V) :=
  filter (fun kv => fst kv <> k) l.
End BT.

Section Compile.
Variable mainnet : bool.
(** pallas Address::from_bytes(b).to_vec(): the normalised bytes of a well-formed address *)
Variable addr_parse : bytes -> option bytes.
(** Address::from_str on a bech32 string *)
Variable addr_of_string : bytes -> option bytes.
(** address_into_keyhash . bytes_into_address: payment credential hash of a Shelley address *)
Variable keyhash_of_addr : bytes -> option bytes.
(** expr_into_reward_account on address bytes *)
Variable reward_of_addr : bytes -> option bytes.
(** minicbor::decode::<NativeScript> succeeds *)
Variable native_script_ok : bytes -> bool.

Definition hash_from (n : nat) (b : bytes) : outcome bytes :=
  if (length b =? n)%nat then Ok b else Err "CoerceError".      (* coercion::bytes_into_hash *)

Definition expr_into_bytes (e : expr) : outcome bytes :=
  match e with EBytes b | EString b => Ok b | _ => Err "CoerceError" end.

Definition expr_into_assets (e : expr) : outcome (list (expr * expr * expr)) :=
  match e with EAssets xs => Ok xs | _ => Err "CoerceError" end.

Definition number_into_u64 (z : Z) : outcome Z := if in_u64 z then Ok z else Err "CoerceError".
Definition number_into_i64 (z : Z) : outcome Z := if in_i64 z then Ok z else Err "CoerceError".

Definition policy_into_address (h : bytes) : outcome bytes :=
  h' <- hash_from 28 h ;; Ok (script_address mainnet h').

Definition expr_into_address (e : expr) : outcome bytes :=
  match e with
  | EAddress x | EBytes x => match addr_parse x with Some b => Ok b | None => Err "CoerceError" end
  | EHash x => policy_into_address x
  | EString x => match addr_of_string x with Some b => Ok b | None => Err "CoerceError" end
  | _ => Err "CoerceError"
  end.

(** coercion::expr_into_utxo_refs; a String reference is "hex txid#index" *)
Definition bytes_to_string (b : bytes) : string := string_of_list_ascii (map Ascii.ascii_of_N b).
Definition expr_into_utxo_refs (e : expr) : outcome (list utxo_ref) :=
  match e with
  | EUtxoRefs rs => Ok rs
  | EUtxoSet us => Ok (map (fun u => fst (fst (fst (fst u)))) us)
  | EString s =>
    match value_to_utxo_ref (JStr (bytes_to_string s)) with
    | Ok r => Ok [r]
    | _ => Err "CoerceError"
    end
  | _ => Err "CoerceError"
  end.

Definition tx_input_of (r : utxo_ref) : outcome (bytes * Z) :=
  t <- hash_from 32 (r_txid r) ;; Ok (t, Z.of_N (r_idx r)).

(** `.flat_map(expr_into_utxo_refs)`: a slot that does not coerce is silently skipped *)
Definition refs_lenient (es : list expr) : outcome (list (bytes * Z)) :=
  omapM tx_input_of
        (flat_map (fun e => match expr_into_utxo_refs e with Ok rs => rs | _ => [] end) es).
(** * values *)
Inductive value := VCoin (c : Z) | VMulti (c : Z) (m : list (bytes * list (bytes * Z))).

Definition compile_value (x : expr * expr * expr) : outcome value :=
  let '(policy, name, amount) := x in
  amt <- expr_into_number 64 amount ;;
  match policy with
  | ENone => Ok (VCoin (wrap_u64 amt))                        (* `amount as u64` *)
  | _ =>
    if 0 <? as_i64 amt then                                    (* `amount as i64 > 0` *)
      p <- expr_into_bytes policy ;; p' <- hash_from 28 p ;;
      n <- expr_into_bytes name ;;
      Ok (VMulti 0 [(p', [(n, wrap_u64 amt)])])
    else Ok (VCoin 0)                                          (* silently dropped *)
  end.

(** SafeAdd: None (entry removed) when the sum leaves the type or, for mints, hits zero *)
Definition safe_add_pos (a b : Z) : option Z := let s := a + b in if s <? 2 ^ 64 then Some s else None.
Definition safe_add_nz (a b : Z) : option Z :=
  let s := a + b in if in_i64 s && negb (s =? 0) then Some s else None.

Section Fold.
Variable safe_add : Z -> Z -> option Z.
Definition fold_assets (acc item : list (bytes * Z)) : list (bytes * Z) :=
  fold_left (fun acc kv =>
               match bt_get (fst kv) acc with
               | Some old => match safe_add (snd kv) old with
                             | Some v => bt_put (fst kv) v acc
                             | None => bt_del (fst kv) acc
                             end
               | None => bt_put (fst kv) (snd kv) acc
               end) item acc.
Definition fold_multiassets (acc item : list (bytes * list (bytes * Z))) :=
  fold_left (fun acc kv =>
               let m := fold_assets (from_option id [] (bt_get (fst kv) acc)) (snd kv) in
               match m with
               | [] => bt_del (fst kv) acc            (* cancelled out: no empty policy entry *)
               | _ => bt_put (fst kv) m acc
               end) item acc.
Definition aggregate_assets (items : list (list (bytes * list (bytes * Z)))) :=
  match fold_left fold_multiassets items [] with
  | [] => None
  | m => Some m
  end.
End Fold.

(** exact totals per (policy, name) over a list of multi-asset items: ensure_native_totals_fit /
    ensure_mint_totals_fit refuse a total that leaves the field before anything is aggregated *)
Definition item_triples (items : list (list (bytes * list (bytes * Z)))) : list (bytes * bytes * Z) :=
  flat_map (fun it => flat_map (fun pm => map (fun na => (fst pm, fst na, snd na)) (snd pm)) it) items.
Definition total_of (ts : list (bytes * bytes * Z)) (p n : bytes) : Z :=
  fold_right (fun x acc => if bool_decide (fst (fst x) = p) && bool_decide (snd (fst x) = n) then snd x + acc else acc) 0 ts.
Definition totals_fit (ok : Z -> bool) (items : list (list (bytes * list (bytes * Z)))) : bool :=
  let ts := item_triples items in forallb (fun x => ok (total_of ts (fst (fst x)) (snd (fst x)))) ts.

(** aggregate_values: u64 `+=` on the coin (overflow: panic with overflow checks) *)
Definition aggregate_values (vs : list value) : outcome (Z * list (bytes * list (bytes * Z))) :=
  c <- fold_left (fun acc v => a <- acc ;;
                               let x := match v with VCoin x | VMulti x _ => x end in
                               if a + x <? 2 ^ 64 then Ok (a + x) else Err "CoerceError") vs (Ok 0) ;;   (* ensure_total_coin_fits *)
  let ms := flat_map (fun v => match v with VMulti _ m => [m] | _ => [] end) vs in
  if totals_fit (fun z => z <? 2 ^ 64) ms then Ok (c, from_option id [] (aggregate_assets safe_add_pos ms))
  else Err "CoerceError".                                               (* ensure_native_totals_fit *)

Definition encode_datum (e : expr) : outcome (option (list N)) :=
  match e with
  | ENone => Ok None
  | _ => d <- compile_data_expr e ;; Ok (Some (PlutusData.encode d))
  end.

Definition compile_output_block (o : output) : outcome aout :=
  a <- expr_into_address (out_address o) ;;
  xs <- expr_into_assets (out_amount o) ;;
  vs <- omapM compile_value xs ;;
  v <- aggregate_values vs ;;
  d <- encode_datum (out_datum o) ;;
  Ok (mk_aout a (fst v) (snd v) d None).

Definition output_has_assets (o : aout) : bool :=
  (0 <? ao_coin o) || match ao_assets o with [] => false | _ => true end.

Definition data_get (k : string) (d : list (string * expr)) : option expr := lookup_arg k d.

(** compile_adhoc_script: version 0 native (decoded), 1..3 plutus, else error *)
Definition compile_adhoc_script (version : option expr) (script : option expr) : outcome (N * bytes) :=
  s <- option_mapM expr_into_bytes script ;;
  v <- option_mapM (expr_into_number 64) version ;;
  let ver := match v with Some z => z mod 256 | None => 3 end in      (* `v as u8` *)
  match s with
  | None => Err "MissingExpression"
  | Some sb =>
    if ver =? 0 then (if native_script_ok sb then Ok (0%N, sb) else Err "FormatError")
    else if (1 <=? ver) && (ver <=? 3) then Ok (Z.to_N ver, sb)
    else Err "CoerceError"
  end.

Definition compile_publish (d : list (string * expr)) : outcome aout :=
  match data_get "to" d with
  | None => Err "MissingExpression"
  | Some to =>
    a <- expr_into_address to ;;
    match data_get "amount" d with
    | None => Err "MissingExpression"
    | Some amount =>
      xs <- expr_into_assets amount ;;
      vs <- omapM compile_value xs ;;
      v <- aggregate_values vs ;;
      dat <- match data_get "datum" d with
             | Some e => x <- compile_data_expr e ;; Ok (Some (PlutusData.encode x))
             | None => Ok None
             end ;;
      sr <- match data_get "version" d, data_get "script" d with
            | Some ve, Some se => s <- compile_adhoc_script (Some ve) (Some se) ;; Ok (Some s)
            | _, _ => Ok None
            end ;;
      Ok (mk_aout a (fst v) (snd v) dat sr)
    end
  end.

Definition compile_outputs (t : tx) : outcome (list aout) :=
  (* a failing optional output still fails the compilation *)
  outs <- omapM (fun o => r <- compile_output_block o ;; Ok (out_optional o, r)) (tx_outputs t) ;;
  let kept := map snd (filter (fun p => negb (fst p) || output_has_assets (snd p)) outs) in
  pubs <- omapM (fun a => compile_publish (ad_data a))
                (filter (fun a => bool_decide (ad_name a = "cardano_publish"%string)) (tx_adhoc t)) ;;
  Ok (kept ++ pubs).

(** * mint *)
Definition compile_mint_asset (burn : bool) (x : expr * expr * expr) : outcome (list (bytes * list (bytes * Z))) :=
  let '(policy, name, amount) := x in
  p <- expr_into_bytes policy ;; p' <- hash_from 28 p ;;
  n <- expr_into_bytes name ;;
  amt <- expr_into_number 64 amount ;;
  signed <- (if burn then (if amt =? i128_min then Err "CoerceError" else Ok (- amt)) else Ok amt) ;;
  v <- number_into_i64 signed ;;
  if v =? 0 then Err "CoerceError" else Ok [(p', [(n, v)])].

Definition compile_mint_side (burn : bool) (ms : list mint) :=
  lists <- omapM (fun m => expr_into_assets (m_amount m)) ms ;;
  items <- omapM (compile_mint_asset burn) (concat lists) ;;
  if totals_fit in_i64 items then Ok (aggregate_assets safe_add_nz items) else Err "CoerceError".   (* ensure_mint_totals_fit *)

Definition compile_mint_block (t : tx) : outcome (option (list (bytes * list (bytes * Z)))) :=
  match tx_mints t, tx_burns t with
  | [], [] => Ok None
  | _, _ =>
    (* both sides are converted before either aggregation result is used *)
    mi <- compile_mint_side false (tx_mints t) ;;
    bu <- compile_mint_side true (tx_burns t) ;;
    match mi, bu with
    | Some a, Some b => if totals_fit in_i64 [a; b] then Ok (aggregate_assets safe_add_nz [a; b]) else Err "CoerceError"
    | Some a, None => Ok (Some a)
    | None, Some b => Ok (Some b)
    | None, None => Ok None
    end
  end.

(** * the rest of the body *)
Definition non_empty {A} (l : list A) : option (list A) := match l with [] => None | _ => Some l end.

Definition keyhash_of_expr (e : expr) : outcome bytes :=
  match e with
  | EBytes x => hash_from 28 x
  | EAddress x => match keyhash_of_addr x with Some h => Ok h | None => Err "CoerceError" end
  | _ => Err "CoerceError"
  end.

Definition compile_validity_field (e : expr) : outcome (option Z) :=
  match e with
  | ENone => Ok None
  | _ => n <- expr_into_number 64 e ;; s <- number_into_u64 n ;; Ok (Some s)
  end.

Definition reward_account_of (e : expr) : outcome bytes :=
  a <- expr_into_address e ;;
  match reward_of_addr a with Some r => Ok r | None => Err "FormatError" end.

Definition compile_withdrawal (d : list (string * expr)) : outcome (bytes * Z) :=
  match data_get "credential" d with
  | None => Err "MissingExpression"
  | Some c =>
    cred <- reward_account_of c ;;
    match data_get "amount" d with
    | None => Err "MissingExpression"
    | Some a => n <- expr_into_number 64 a ;; v <- number_into_u64 n ;; Ok (cred, v)
    end
  end.

Definition withdrawal_directives (t : tx) := filter (fun a => bool_decide (ad_name a = "withdrawal"%string)) (tx_adhoc t).

Definition compile_withdrawals (t : tx) : outcome (option (list (bytes * Z))) :=
  ws <- omapM (fun a => compile_withdrawal (ad_data a)) (withdrawal_directives t) ;;
  (* one amount per reward account: a second directive for the same account is refused *)
  if nodupb (map fst ws) then Ok (non_empty (fold_left (fun acc kv => bt_put (fst kv) (snd kv) acc) ws []))
  else Err "ConsistencyError".

Definition compile_donation (t : tx) : outcome (option Z) :=
  if (1 <? length (filter (fun a => bool_decide (ad_name a = "treasury_donation"%string)) (tx_adhoc t)))%nat
  then Err "ConsistencyError" else
  match find (fun a => bool_decide (ad_name a = "treasury_donation"%string)) (tx_adhoc t) with
  | Some a =>
    match data_get "coin" (ad_data a) with
    | Some e => n <- expr_into_number 64 e ;; v <- number_into_u64 n ;;
                if v =? 0 then Err "CoerceError" else Ok (Some v)
    | None => Ok None
    end
  | None => Ok None
  end.

Definition expr_into_metadatum (e : expr) : outcome metadatum :=
  match e with
  | ENumber x => if (- 2 ^ 64 <=? x) && (x <? 2 ^ 64) then Ok (MInt x) else Err "CoerceError"
  | EString x => Ok (MText x)
  | EBytes x => Ok (MBytes x)
  | _ => Err "CoerceError"
  end.

Fixpoint z_put {V} (k : Z) (v : V) (l : list (Z * V)) : list (Z * V) :=
  match l with
  | [] => [(k, v)]
  | (k', v') :: r => if k =? k' then (k, v) :: r else if k <? k' then (k, v) :: l else (k', v') :: z_put k v r
  end.

Definition compile_metadata (t : tx) : outcome (option (list (Z * metadatum))) :=
  kvs <- omapM (fun m => k <- expr_into_number 64 (md_key m) ;; k' <- number_into_u64 k ;;
                         v <- expr_into_metadatum (md_value m) ;; Ok (k', v)) (tx_metadata t) ;;
  Ok (non_empty (fold_left (fun acc kv => z_put (fst kv) (snd kv) acc) kvs [])).

(** * redeemers *)
Definition ref_ltb (a b : bytes * Z) : bool :=
  if bytes_ltb (fst a) (fst b) then true else if bytes_ltb (fst b) (fst a) then false else snd a <? snd b.
Fixpoint insert_ref (x : bytes * Z) (l : list (bytes * Z)) : list (bytes * Z) :=
  match l with [] => [x] | y :: r => if ref_ltb x y then x :: l else y :: insert_ref x r end.
Definition sort_refs (l : list (bytes * Z)) := fold_right insert_ref [] l.

Fixpoint position {A} (p : A -> bool) (l : list A) : option nat :=
  match l with [] => None | x :: r => if p x then Some O else option_map S (position p r) end.

Definition encode_redeemer (e : expr) : outcome (list N) := d <- try_as_data e ;; Ok (PlutusData.encode d).

Definition spend_redeemers (t : tx) (body_inputs : list (bytes * Z)) : outcome (list ared) :=
  let sorted := sort_refs body_inputs in
  rs <- omapM (fun i =>
                 refs <- expr_into_utxo_refs (i_utxos i) ;;
                 match refs with
                 | [] => Err "MissingExpression"
                 | r :: _ =>
                   match i_redeemer i with
                   | ENone => Ok []
                   | red =>
                     (* utxo_ref_matches compares the txid bytes and `index as u32` *)
                     match position (fun x => bool_decide (fst x = r_txid r) && (snd x mod 2 ^ 32 =? Z.of_N (r_idx r))) sorted with
                     | Some k => d <- encode_redeemer red ;; Ok [mk_ared 0 (Z.of_nat k) d]
                     | None => Panic "compile_single_spend_redeemer: position().unwrap()"
                     end
                   end
                 end) (tx_inputs t) ;;
  Ok (concat rs).

Fixpoint dedup_sorted (l : list bytes) : list bytes :=
  match l with
  | a :: ((b :: _) as r) => if bool_decide (a = b) then dedup_sorted r else a :: dedup_sorted r
  | _ => l
  end.

Definition mint_redeemers (ms : list mint) (minted : option (list (bytes * list (bytes * Z)))) : outcome (list ared) :=
  let keys := map fst (from_option id [] minted) in         (* a BTreeMap: sorted, distinct *)
  rs <- omapM (fun m =>
                 match m_redeemer m with
                 | ENone => Ok []
                 | red =>
                   xs <- expr_into_assets (m_amount m) ;;
                   match xs with
                   | [] => Err "MissingExpression"
                   | x :: _ =>
                     p <- expr_into_bytes (fst (fst x)) ;; p' <- hash_from 28 p ;;
                     match position (fun k => bool_decide (k = p')) keys with
                     | Some k => d <- encode_redeemer red ;; Ok [mk_ared 1 (Z.of_nat k) d]
                     | None => Err "ConsistencyError"
                     end
                   end
                 end) ms ;;
  Ok (concat rs).

(** the ledger's order of reward accounts: network, then script credentials before key
    credentials, then the hash (header byte 0xE_ = key, 0xF_ = script; low nibble = network) *)
Definition acct_key (a : bytes) : N * bool * bytes :=
  match a with
  | h :: hash => (N.land h 15, N.eqb (N.land h 16) 0, hash)
  | [] => (0%N, false, [])
  end.
Definition acct_ltb (a b : bytes) : bool :=
  let '(na, ka, ha) := acct_key a in
  let '(nb, kb, hb) := acct_key b in
  if (na <? nb)%N then true else if (nb <? na)%N then false
  else if negb ka && kb then true else if ka && negb kb then false
  else bytes_ltb ha hb.
Fixpoint insert_acct (x : bytes) (l : list bytes) : list bytes :=
  match l with [] => [x] | y :: r => if acct_ltb x y then x :: l else y :: insert_acct x r end.
Definition sort_accts (l : list bytes) : list bytes := fold_right insert_acct [] l.

Definition withdrawal_redeemers (t : tx) (ws : option (list (bytes * Z))) : outcome (list ared) :=
  let keys := sort_accts (map fst (from_option id [] ws)) in
  rs <- omapM (fun a =>
                 match data_get "redeemer" (ad_data a) with
                 | None => Err "MissingExpression"
                 | Some ENone => Ok []
                 | Some red =>
                   match data_get "credential" (ad_data a) with
                   | None => Err "MissingExpression"
                   | Some c =>
                     cred <- reward_account_of c ;;
                     match position (fun k => bool_decide (k = cred)) keys with
                     | Some k => d <- encode_redeemer red ;; Ok [mk_ared 3 (Z.of_nat k) d]
                     | None => Err "ConsistencyError"
                     end
                   end
                 end) (withdrawal_directives t) ;;
  Ok (concat rs).

Definition red_ltb (a b : ared) : bool :=
  if (rd_tag a <? rd_tag b)%N then true else if (rd_tag b <? rd_tag a)%N then false else rd_index a <? rd_index b.
Fixpoint red_put (x : ared) (l : list ared) : list ared :=
  match l with
  | [] => [x]
  | y :: r =>
    if (rd_tag x =? rd_tag y)%N && (rd_index x =? rd_index y) then x :: r     (* later insert wins *)
    else if red_ltb x y then x :: l else y :: red_put x r
  end.

(** * witnesses *)
Definition plutus_witnesses (t : tx) : list (N * bytes) :=
  flat_map (fun v =>
    flat_map (fun a =>
      if bool_decide (ad_name a = "plutus_witness"%string) then
        match data_get "version" (ad_data a) with
        | Some ve =>
          let n := match expr_into_number 64 ve with Ok z => z | _ => 0 end in
          if n =? Z.of_N v then
            match data_get "script" (ad_data a) with
            | Some se => match expr_into_bytes se with Ok b => [(v, b)] | _ => [] end
            | None => []
            end
          else []
        | None => []
        end
      else []) (tx_adhoc t)) [1%N; 2%N; 3%N].

Definition native_witnesses (t : tx) : outcome (list bytes) :=
  omapM (fun b => if native_script_ok b then Ok b else Err "FormatError")
        (flat_map (fun a =>
           if bool_decide (ad_name a = "native_witness"%string) then
             match data_get "script" (ad_data a) with
             | Some se => match expr_into_bytes se with Ok b => [b] | _ => [] end
             | None => []
             end
           else []) (tx_adhoc t)).

(** * entry_point *)
(** `distinct`: the members of a set field, each once, in the order of their first mention *)
Fixpoint distinct_from {A} `{EqDecision A} (seen : list A) (l : list A) : list A :=
  match l with
  | [] => []
  | x :: r => if bool_decide (x ∈ seen) then distinct_from seen r else x :: distinct_from (x :: seen) r
  end.
Definition distinct {A} `{EqDecision A} (l : list A) : list A := distinct_from [] l.

Definition compile_tx (has_cost_model : N -> bool) (t : tx) : outcome atx :=
  start <- match tx_validity t with Some v => compile_validity_field (v_since v) | None => Ok None end ;;
  ttl <- match tx_validity t with Some v => compile_validity_field (v_until v) | None => Ok None end ;;
  ins <- refs_lenient (map i_utxos (tx_inputs t)) ;;
  outs <- compile_outputs t ;;
  feen <- expr_into_number 64 (tx_fees t) ;;
  fee <- number_into_u64 feen ;;
  minted <- compile_mint_block t ;;
  refs0 <- refs_lenient (tx_references t) ;;
  let refs := distinct refs0 in
  ws <- compile_withdrawals t ;;
  let coll_slots := omap (fun e => match e with ENone => None | _ => Some e end) (tx_collateral t) in
  coll0 <- refs_lenient coll_slots ;;
  let coll := distinct coll0 in
  signers <- match tx_signers t with
             | Some ss => hs <- omapM keyhash_of_expr ss ;; Ok (non_empty (distinct hs))
             | None => Ok None
             end ;;
  don <- compile_donation t ;;
  (* witness set *)
  sp <- spend_redeemers t ins ;;
  mr <- mint_redeemers (tx_mints t) minted ;;
  br <- mint_redeemers (tx_burns t) minted ;;
  wr <- withdrawal_redeemers t ws ;;
  let reds := fold_left (fun acc r => red_put r acc) (sp ++ mr ++ br ++ wr) [] in
  nat_ws <- native_witnesses t ;;
  let pl := plutus_witnesses t in
  md <- compile_metadata t ;;
  (* compute_script_data_hash: no redeemers -> none; else the cost model of the inferred version is needed *)
  let version := if existsb (fun p => (fst p =? 1)%N) pl then 0%N
                 else if existsb (fun p => (fst p =? 2)%N) pl then 1%N else 2%N in
  sdh <- match reds with
         | [] => Ok false
         | _ => if has_cost_model version then Ok true else Err "MissingExpression"
         end ;;
  Ok (mk_atx ins outs fee minted ttl start ws don signers (non_empty refs) (non_empty coll)
             (if mainnet then 1%N else 0%N) (non_empty reds) md nat_ws pl sdh
             (match md with Some _ => true | None => false end)).
End Compile.
