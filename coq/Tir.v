(** Tir.v — the transaction IR (tx3_tir::model::v1beta0, core) as one inductive.
    Each constructor is exactly one Rust shape:
      EParamSet e        = Expression::EvalParam(Param::Set(e))
      EAdd a b           = Expression::EvalBuiltIn(BuiltInOp::Add(a, b))
      EMinUtxo e         = Expression::EvalCompiler(CompilerOp::ComputeMinUtxo(e))
      EIntoAssets e      = Expression::EvalCoerce(Coerce::IntoAssets(e))     ... and so on.
    Hash-map / hash-set payloads are key-sorted lists (the harness prints them sorted). *)
From Tx3 Require Export Base Assets Select.

Inductive ty :=
| TUndefined | TUnit | TInt | TBool | TBytes | TAddress | TUtxo | TUtxoRef | TAnyAsset | TList | TMap
| TCustom (n : string).
Global Instance ty_eq_dec : EqDecision ty.
Proof. solve_decision. Defined.

Inductive expr :=
| ENone
| EList (xs : list expr)
| EMap (kvs : list (expr * expr))
| ETuple (a b : expr)
| EStruct (ctor : N) (fields : list expr)
| EBytes (b : bytes)
| ENumber (z : Z)
| EBool (b : bool)
| EString (s : bytes)
| EAddress (b : bytes)
| EHash (b : bytes)
| EUtxoRefs (rs : list utxo_ref)
| EUtxoSet (us : list (utxo_ref * bytes * list (asset_class * Z) * option expr * option expr))
| EAssets (xs : list (expr * expr * expr))                  (* policy, asset_name, amount *)
(* Param *)
| EParamSet (e : expr)
| EExpectValue (n : string) (t : ty)
| EExpectInput (n : string) (addr min ref : expr) (many coll : bool)
| EExpectFees
(* BuiltInOp *)
| EBNoOp (e : expr) | EAdd (a b : expr) | ESub (a b : expr) | EConcat (a b : expr)
| ENegate (e : expr) | EProperty (e idx : expr)
(* CompilerOp *)
| EScriptAddr (e : expr) | EMinUtxo (e : expr) | ETipSlot | ESlotToTime (e : expr) | ETimeToSlot (e : expr)
(* Coerce *)
| ECNoOp (e : expr) | EIntoAssets (e : expr) | EIntoDatum (e : expr) | EIntoScript (e : expr)
(* pass-through *)
| EAdHoc (name : string) (data : list (string * expr)).

Definition utxo_x : Type := utxo_ref * bytes * list (asset_class * Z) * option expr * option expr.

(** one-level map over the children that every traversal of the code treats alike
    (Composite::try_map_components and the Expression arms). Param constructors and leaves
    are returned unchanged; each traversal decides about Param itself. *)
Definition map_children (f : expr -> expr) (e : expr) : expr :=
  match e with
  | EList xs => EList (map f xs)
  | EMap kvs => EMap (map (fun kv => (f (fst kv), f (snd kv))) kvs)
  | ETuple a b => ETuple (f a) (f b)
  | EStruct c fs => EStruct c (map f fs)
  | EAssets xs => EAssets (map (fun x => (f (fst (fst x)), f (snd (fst x)), f (snd x))) xs)
  | EBNoOp a => EBNoOp (f a) | EAdd a b => EAdd (f a) (f b) | ESub a b => ESub (f a) (f b)
  | EConcat a b => EConcat (f a) (f b) | ENegate a => ENegate (f a)
  | EProperty a i => EProperty (f a) (f i)
  | EScriptAddr a => EScriptAddr (f a) | EMinUtxo a => EMinUtxo (f a)
  | ESlotToTime a => ESlotToTime (f a) | ETimeToSlot a => ETimeToSlot (f a)
  | ECNoOp a => ECNoOp (f a) | EIntoAssets a => EIntoAssets (f a)
  | EIntoDatum a => EIntoDatum (f a) | EIntoScript a => EIntoScript (f a)
  | EAdHoc n d => EAdHoc n (map (fun kv => (fst kv, f (snd kv))) d)
  | _ => e
  end.

(** the same children, as a list (Composite::components and the Expression arms) *)
Definition children (e : expr) : list expr :=
  match e with
  | EList xs => xs
  | EMap kvs => flat_map (fun kv => [fst kv; snd kv]) kvs
  | ETuple a b => [a; b]
  | EStruct _ fs => fs
  | EAssets xs => flat_map (fun x => [fst (fst x); snd (fst x); snd x]) xs
  | EBNoOp a | ENegate a | EScriptAddr a | EMinUtxo a | ESlotToTime a | ETimeToSlot a
  | ECNoOp a | EIntoAssets a | EIntoDatum a | EIntoScript a => [a]
  | EAdd a b | ESub a b | EConcat a b | EProperty a b => [a; b]
  | EAdHoc _ d => map snd d
  | _ => []
  end.

(** folds over the same children, in a form the guard checker accepts under a Fixpoint *)
Definition forall_children (f : expr -> bool) (e : expr) : bool :=
  match e with
  | EList xs => forallb f xs
  | EMap kvs => forallb (fun kv => f (fst kv) && f (snd kv)) kvs
  | ETuple a b => f a && f b
  | EStruct _ fs => forallb f fs
  | EAssets xs => forallb (fun x => f (fst (fst x)) && f (snd (fst x)) && f (snd x)) xs
  | EBNoOp a | ENegate a | EScriptAddr a | EMinUtxo a | ESlotToTime a | ETimeToSlot a
  | ECNoOp a | EIntoAssets a | EIntoDatum a | EIntoScript a => f a
  | EAdd a b | ESub a b | EConcat a b | EProperty a b => f a && f b
  | EAdHoc _ d => forallb (fun kv => f (snd kv)) d
  | _ => true
  end.
Definition flat_children {A} (f : expr -> list A) (e : expr) : list A :=
  match e with
  | EList xs => flat_map f xs
  | EMap kvs => flat_map (fun kv => f (fst kv) ++ f (snd kv)) kvs
  | ETuple a b => f a ++ f b
  | EStruct _ fs => flat_map f fs
  | EAssets xs => flat_map (fun x => f (fst (fst x)) ++ f (snd (fst x)) ++ f (snd x)) xs
  | EBNoOp a | ENegate a | EScriptAddr a | EMinUtxo a | ESlotToTime a | ETimeToSlot a
  | ECNoOp a | EIntoAssets a | EIntoDatum a | EIntoScript a => f a
  | EAdd a b | ESub a b | EConcat a b | EProperty a b => f a ++ f b
  | EAdHoc _ d => flat_map (fun kv => f (snd kv)) d
  | _ => []
  end.

(** children of the Param constructors *)
Definition param_children (e : expr) : list expr :=
  match e with
  | EParamSet x => [x]
  | EExpectInput _ a m r _ _ => [a; m; r]
  | _ => []
  end.
Definition all_children (e : expr) : list expr := children e ++ param_children e.

Inductive arg_value :=
| ArgInt (z : Z) | ArgBool (b : bool) | ArgString (s : bytes) | ArgBytes (b : bytes) | ArgAddress (b : bytes)
| ArgUtxoSet (us : list utxo_x) | ArgUtxoRef (r : utxo_ref).

Definition arg_value_into_expr (a : arg_value) : expr :=
  match a with
  | ArgAddress x => EAddress x | ArgInt x => ENumber x | ArgBool x => EBool x | ArgString x => EString x
  | ArgBytes x => EBytes x | ArgUtxoSet x => EUtxoSet x | ArgUtxoRef x => EUtxoRefs [x]
  end.

(** blocks of a transaction *)
Record input := mk_input { i_name : string; i_utxos : expr; i_redeemer : expr }.
Record output := mk_output { out_address : expr; out_datum : expr; out_amount : expr; out_optional : bool }.
Record validity := mk_validity { v_since : expr; v_until : expr }.
Record mint := mk_mint { m_amount : expr; m_redeemer : expr }.
Record metadata := mk_metadata { md_key : expr; md_value : expr }.
Record adhoc := mk_adhoc { ad_name : string; ad_data : list (string * expr) }.

Record tx := mk_tx {
  tx_fees : expr;
  tx_references : list expr;
  tx_inputs : list input;
  tx_outputs : list output;
  tx_validity : option validity;
  tx_mints : list mint;
  tx_burns : list mint;
  tx_adhoc : list adhoc;
  tx_collateral : list expr;          (* Collateral { utxos } *)
  tx_signers : option (list expr);    (* Signers { signers } *)
  tx_metadata : list metadata }.

(** apply [f] to every top-level expression slot of a transaction *)
Definition tx_map (f : expr -> expr) (t : tx) : tx :=
  mk_tx (f (tx_fees t))
        (map f (tx_references t))
        (map (fun i => mk_input (i_name i) (f (i_utxos i)) (f (i_redeemer i))) (tx_inputs t))
        (map (fun o => mk_output (f (out_address o)) (f (out_datum o)) (f (out_amount o)) (out_optional o)) (tx_outputs t))
        (option_map (fun v => mk_validity (f (v_since v)) (f (v_until v))) (tx_validity t))
        (map (fun m => mk_mint (f (m_amount m)) (f (m_redeemer m))) (tx_mints t))
        (map (fun m => mk_mint (f (m_amount m)) (f (m_redeemer m))) (tx_burns t))
        (map (fun a => mk_adhoc (ad_name a) (map (fun kv => (fst kv, f (snd kv))) (ad_data a))) (tx_adhoc t))
        (map f (tx_collateral t))
        (option_map (map f) (tx_signers t))
        (map (fun m => mk_metadata (f (md_key m)) (f (md_value m))) (tx_metadata t)).

(** every top-level expression slot, in the order Tx::params visits them
    (inputs, outputs, mints, burns, fees, adhoc, signers, validity, metadata, references, collateral) *)
Definition tx_slots (t : tx) : list expr :=
  flat_map (fun i => [i_utxos i; i_redeemer i]) (tx_inputs t)
  ++ flat_map (fun o => [out_address o; out_datum o; out_amount o]) (tx_outputs t)
  ++ flat_map (fun m => [m_amount m; m_redeemer m]) (tx_mints t)
  ++ flat_map (fun m => [m_amount m; m_redeemer m]) (tx_burns t)
  ++ [tx_fees t]
  ++ flat_map (fun a => map snd (ad_data a)) (tx_adhoc t)
  ++ from_option id [] (tx_signers t)
  ++ from_option (fun v => [v_since v; v_until v]) [] (tx_validity t)
  ++ flat_map (fun m => [md_key m; md_value m]) (tx_metadata t)
  ++ tx_references t
  ++ tx_collateral t.

(** monadic one-level map, for traversals that can fail (reduce, the compiler-op visitor) *)
Definition omapM2 {A} (f : A -> outcome A) : list (A * A) -> outcome (list (A * A)) :=
  fix go l :=
    match l with
    | [] => Ok []
    | x :: r => a' <- f (fst x) ;; b' <- f (snd x) ;; r' <- go r ;; Ok ((a', b') :: r')
    end.
Definition omapM3 {A} (f : A -> outcome A) : list (A * A * A) -> outcome (list (A * A * A)) :=
  fix go l :=
    match l with
    | [] => Ok []
    | x :: r => a' <- f (fst (fst x)) ;; b' <- f (snd (fst x)) ;; c' <- f (snd x) ;; r' <- go r ;;
                Ok ((a', b', c') :: r')
    end.
Definition omapMkv {K A} (f : A -> outcome A) : list (K * A) -> outcome (list (K * A)) :=
  fix go l :=
    match l with
    | [] => Ok []
    | x :: r => a' <- f (snd x) ;; r' <- go r ;; Ok ((fst x, a') :: r')
    end.

Definition mapM_children (f : expr -> outcome expr) (e : expr) : outcome expr :=
  match e with
  | EList xs => xs' <- omapM f xs ;; Ok (EList xs')
  | EMap kvs => kvs' <- omapM2 f kvs ;; Ok (EMap kvs')
  | ETuple a b => a' <- f a ;; b' <- f b ;; Ok (ETuple a' b')
  | EStruct c fs => fs' <- omapM f fs ;; Ok (EStruct c fs')
  | EAssets xs => xs' <- omapM3 f xs ;; Ok (EAssets xs')
  | EBNoOp a => a' <- f a ;; Ok (EBNoOp a')
  | EAdd a b => a' <- f a ;; b' <- f b ;; Ok (EAdd a' b')
  | ESub a b => a' <- f a ;; b' <- f b ;; Ok (ESub a' b')
  | EConcat a b => a' <- f a ;; b' <- f b ;; Ok (EConcat a' b')
  | ENegate a => a' <- f a ;; Ok (ENegate a')
  | EProperty a i => a' <- f a ;; i' <- f i ;; Ok (EProperty a' i')
  | EScriptAddr a => a' <- f a ;; Ok (EScriptAddr a')
  | EMinUtxo a => a' <- f a ;; Ok (EMinUtxo a')
  | ESlotToTime a => a' <- f a ;; Ok (ESlotToTime a')
  | ETimeToSlot a => a' <- f a ;; Ok (ETimeToSlot a')
  | ECNoOp a => a' <- f a ;; Ok (ECNoOp a')
  | EIntoAssets a => a' <- f a ;; Ok (EIntoAssets a')
  | EIntoDatum a => a' <- f a ;; Ok (EIntoDatum a')
  | EIntoScript a => a' <- f a ;; Ok (EIntoScript a')
  | EAdHoc n d => d' <- omapMkv f d ;; Ok (EAdHoc n d')
  | _ => Ok e
  end.

Definition option_mapM {A B} (f : A -> outcome B) (o : option A) : outcome (option B) :=
  match o with None => Ok None | Some a => b <- f a ;; Ok (Some b) end.

Definition tx_mapM (f : expr -> outcome expr) (t : tx) : outcome tx :=
  fees <- f (tx_fees t) ;;
  refs <- omapM f (tx_references t) ;;
  ins <- omapM (fun i => u <- f (i_utxos i) ;; r <- f (i_redeemer i) ;; Ok (mk_input (i_name i) u r)) (tx_inputs t) ;;
  outs <- omapM (fun o => a <- f (out_address o) ;; d <- f (out_datum o) ;; m <- f (out_amount o) ;;
                          Ok (mk_output a d m (out_optional o))) (tx_outputs t) ;;
  val <- option_mapM (fun v => s <- f (v_since v) ;; u <- f (v_until v) ;; Ok (mk_validity s u)) (tx_validity t) ;;
  mints <- omapM (fun m => a <- f (m_amount m) ;; r <- f (m_redeemer m) ;; Ok (mk_mint a r)) (tx_mints t) ;;
  burns <- omapM (fun m => a <- f (m_amount m) ;; r <- f (m_redeemer m) ;; Ok (mk_mint a r)) (tx_burns t) ;;
  adh <- omapM (fun a => d <- omapMkv f (ad_data a) ;; Ok (mk_adhoc (ad_name a) d)) (tx_adhoc t) ;;
  coll <- omapM f (tx_collateral t) ;;
  sig <- option_mapM (omapM f) (tx_signers t) ;;
  md <- omapM (fun m => k <- f (md_key m) ;; v <- f (md_value m) ;; Ok (mk_metadata k v)) (tx_metadata t) ;;
  Ok (mk_tx fees refs ins outs val mints burns adh coll sig md).

(** boolean equality (the nested lists rule out solve_decision) *)
Definition list_eqb {A} (eqb : A -> A -> bool) : list A -> list A -> bool :=
  fix go (xs ys : list A) : bool :=
    match xs, ys with
    | [], [] => true
    | x :: xs', y :: ys' => eqb x y && go xs' ys'
    | _, _ => false
    end.
Definition opt_eqb {A} (eqb : A -> A -> bool) (a b : option A) : bool :=
  match a, b with
  | None, None => true
  | Some x, Some y => eqb x y
  | _, _ => false
  end.
Definition bytes_eqb (a b : bytes) : bool := bool_decide (a = b).
Definition entries_eqb (a b : list (asset_class * Z)) : bool := bool_decide (a = b).

Fixpoint expr_eqb (a b : expr) {struct a} : bool :=
  match a, b with
  | ENone, ENone => true
  | EList xs, EList ys => list_eqb expr_eqb xs ys
  | EMap xs, EMap ys =>
    (fix go (xs ys : list (expr * expr)) : bool :=
       match xs, ys with
       | [], [] => true
       | x :: xs', y :: ys' => expr_eqb (fst x) (fst y) && expr_eqb (snd x) (snd y) && go xs' ys'
       | _, _ => false
       end) xs ys
  | ETuple a1 a2, ETuple b1 b2 => expr_eqb a1 b1 && expr_eqb a2 b2
  | EStruct c xs, EStruct d ys => (c =? d)%N && list_eqb expr_eqb xs ys
  | EBytes x, EBytes y | EString x, EString y | EAddress x, EAddress y | EHash x, EHash y => bytes_eqb x y
  | ENumber x, ENumber y => x =? y
  | EBool x, EBool y => eqb x y
  | EUtxoRefs x, EUtxoRefs y => bool_decide (x = y)
  | EUtxoSet xs, EUtxoSet ys =>
    (fix go (xs ys : list utxo_x) : bool :=
       match xs, ys with
       | [], [] => true
       | (r1, a1, e1, d1, s1) :: xs', (r2, a2, e2, d2, s2) :: ys' =>
         bool_decide (r1 = r2) && bytes_eqb a1 a2 && entries_eqb e1 e2
         && match d1, d2 with None, None => true | Some p, Some q => expr_eqb p q | _, _ => false end
         && match s1, s2 with None, None => true | Some p, Some q => expr_eqb p q | _, _ => false end
         && go xs' ys'
       | _, _ => false
       end) xs ys
  | EAssets xs, EAssets ys =>
    (fix go (xs ys : list (expr * expr * expr)) : bool :=
       match xs, ys with
       | [], [] => true
       | x :: xs', y :: ys' =>
         expr_eqb (fst (fst x)) (fst (fst y)) && expr_eqb (snd (fst x)) (snd (fst y))
         && expr_eqb (snd x) (snd y) && go xs' ys'
       | _, _ => false
       end) xs ys
  | EParamSet x, EParamSet y => expr_eqb x y
  | EExpectValue n t, EExpectValue m u => bool_decide (n = m) && bool_decide (t = u)
  | EExpectInput n a1 m1 r1 mn1 c1, EExpectInput k a2 m2 r2 mn2 c2 =>
    bool_decide (n = k) && expr_eqb a1 a2 && expr_eqb m1 m2 && expr_eqb r1 r2 && eqb mn1 mn2 && eqb c1 c2
  | EExpectFees, EExpectFees => true
  | EBNoOp x, EBNoOp y | ENegate x, ENegate y | EScriptAddr x, EScriptAddr y | EMinUtxo x, EMinUtxo y
  | ESlotToTime x, ESlotToTime y | ETimeToSlot x, ETimeToSlot y | ECNoOp x, ECNoOp y
  | EIntoAssets x, EIntoAssets y | EIntoDatum x, EIntoDatum y | EIntoScript x, EIntoScript y => expr_eqb x y
  | EAdd a1 a2, EAdd b1 b2 | ESub a1 a2, ESub b1 b2 | EConcat a1 a2, EConcat b1 b2
  | EProperty a1 a2, EProperty b1 b2 => expr_eqb a1 b1 && expr_eqb a2 b2
  | ETipSlot, ETipSlot => true
  | EAdHoc n xs, EAdHoc m ys =>
    bool_decide (n = m) &&
    (fix go (xs ys : list (string * expr)) : bool :=
       match xs, ys with
       | [], [] => true
       | x :: xs', y :: ys' => bool_decide (fst x = fst y) && expr_eqb (snd x) (snd y) && go xs' ys'
       | _, _ => false
       end) xs ys
  | _, _ => false
  end.

Definition tx_eqb (a b : tx) : bool :=
  let sa := tx_slots a in let sb := tx_slots b in
  list_eqb expr_eqb sa sb
  && bool_decide (map i_name (tx_inputs a) = map i_name (tx_inputs b))
  && bool_decide (map out_optional (tx_outputs a) = map out_optional (tx_outputs b))
  && bool_decide (map ad_name (tx_adhoc a) = map ad_name (tx_adhoc b))
  && bool_decide (map (fun x => map fst (ad_data x)) (tx_adhoc a) = map (fun x => map fst (ad_data x)) (tx_adhoc b))
  && (length (tx_inputs a) =? length (tx_inputs b))%nat
  && (length (tx_outputs a) =? length (tx_outputs b))%nat
  && (length (tx_mints a) =? length (tx_mints b))%nat
  && (length (tx_burns a) =? length (tx_burns b))%nat
  && (length (tx_references a) =? length (tx_references b))%nat
  && (length (tx_collateral a) =? length (tx_collateral b))%nat
  && (length (tx_metadata a) =? length (tx_metadata b))%nat
  && bool_decide (option_map (@length expr) (tx_signers a) = option_map (@length expr) (tx_signers b))
  && eqb (bool_decide (tx_validity a = None)) (bool_decide (tx_validity b = None)).
