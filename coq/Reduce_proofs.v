(** Reduce_proofs.v — properties C06 (a template closes exactly when its reported parameters
    and queries are supplied) and C07 (staged application is order-independent), over every
    expression tree: no bound on depth or width. *)
From Tx3 Require Import Base Tir Tir_proofs Reduce Walk.

Definition is_param (e : expr) : bool :=
  match e with
  | EParamSet _ | EExpectValue _ _ | EExpectInput _ _ _ _ _ _ | EExpectFees => true
  | _ => false
  end.

Lemma is_param_map_children f e : is_param (map_children f e) = is_param e.
Proof. destruct e; reflexivity. Qed.

Lemma apply_args_generic a e : is_param e = false -> apply_args a e = map_children (apply_args a) e.
Proof. destruct e; cbn; intros H; try discriminate; reflexivity. Qed.
Lemma apply_fees_generic f e : is_param e = false -> apply_fees f e = map_children (apply_fees f) e.
Proof. destruct e; cbn; intros H; try discriminate; reflexivity. Qed.
Lemma apply_inputs_generic i e : is_param e = false -> apply_inputs i e = map_children (apply_inputs i) e.
Proof. destruct e; cbn; intros H; try discriminate; reflexivity. Qed.
Lemma is_constant_generic e :
  is_param e = false ->
  is_constant e = (if is_compiler_op e then false else forall_children is_constant e).
Proof. destruct e; cbn; intros H; try discriminate; reflexivity. Qed.
Lemma unresolved_generic e : is_param e = false -> unresolved e = flat_children unresolved e.
Proof. destruct e; cbn; intros H; try discriminate; reflexivity. Qed.
Lemma params_generic e : is_param e = false -> params e = flat_children params e.
Proof. destruct e; cbn; intros H; try discriminate; reflexivity. Qed.
Lemma queries_generic e : is_param e = false -> queries e = flat_children queries e.
Proof. destruct e; cbn; intros H; try discriminate; reflexivity. Qed.

Lemma find_some_elem {A} (f : A -> bool) l x : find f l = Some x -> x ∈ l /\ f x = true.
Proof.
  intros H. apply find_some in H as [H1 H2]. split; [apply elem_of_list_In; exact H1 | exact H2].
Qed.

Lemma child_all e c : c ∈ children e -> c ∈ all_children e.
Proof. intros H. unfold all_children. apply elem_of_app. left. exact H. Qed.

Lemma flat_map_nil {A B} (f : A -> list B) l : (forall c, c ∈ l -> f c = []) -> flat_map f l = [].
Proof.
  induction l as [|x l IH]; intros H; cbn; [reflexivity|].
  rewrite (H x) by left. apply IH. intros c Hc. apply H. right. exact Hc.
Qed.

Lemma elem_of_flat_map {A B} (f : A -> list B) l y :
  y ∈ flat_map f l <-> exists x, x ∈ l /\ y ∈ f x.
Proof.
  rewrite elem_of_list_In, in_flat_map. split; intros [x [H1 H2]]; exists x;
    rewrite ?elem_of_list_In in *; split; assumption.
Qed.

(** * C06: the gate before compilation. A constant template holds no unresolved parameter,
    wherever in the tree one looks. *)
Theorem constant_closed e : is_constant e = true -> unresolved e = [].
Proof.
  induction e as [e IH] using expr_children_ind. intros H.
  destruct (is_param e) eqn:Ep.
  - destruct e; cbn in Ep; try discriminate; cbn in H |- *; try discriminate.
    apply IH; [|exact H]. unfold all_children; cbn. left.
  - rewrite unresolved_generic by exact Ep. rewrite is_constant_generic in H by exact Ep.
    destruct (is_compiler_op e); [discriminate|].
    rewrite forall_children_spec in H. rewrite flat_children_spec.
    apply flat_map_nil. intros c Hc. apply IH; [apply child_all; exact Hc|].
    rewrite forallb_forall in H. apply H. apply elem_of_list_In. exact Hc.
Qed.

Corollary tx_constant_closed t : tx_is_constant t = true -> tx_unresolved t = [].
Proof.
  unfold tx_is_constant, tx_unresolved. intros H. apply flat_map_nil. intros c Hc.
  apply constant_closed. rewrite forallb_forall in H. apply H. apply elem_of_list_In. exact Hc.
Qed.

(** every Param::Set payload is closed: true of every template the front end lowers (it never
    emits Set) and of everything the apply_* functions put there (argument values, UTxO sets,
    the fee) *)
Fixpoint sets_closed (e : expr) : bool :=
  match e with
  | EParamSet x => match unresolved x with [] => true | _ => false end
  | EExpectInput _ a m r _ _ => sets_closed a && sets_closed m && sets_closed r
  | EExpectValue _ _ | EExpectFees => true
  | _ => forall_children sets_closed e
  end.
Lemma sets_closed_generic e : is_param e = false -> sets_closed e = forall_children sets_closed e.
Proof. destruct e; cbn; intros H; try discriminate; reflexivity. Qed.

(** * C06: every unresolved value parameter the walk finds is reported by params *)
Theorem params_complete e n :
  sets_closed e = true -> (UValue, n) ∈ unresolved e -> n ∈ map fst (params e).
Proof.
  induction e as [e IH] using expr_children_ind. intros Hs Hin.
  destruct (is_param e) eqn:Ep.
  - destruct e; cbn in Ep; try discriminate; cbn in Hs, Hin |- *.
    + destruct (unresolved e); [|discriminate]. apply elem_of_nil in Hin. contradiction.
    + apply elem_of_list_singleton in Hin. injection Hin as ->. left.
    + apply andb_true_iff in Hs as [Hs Hs3]. apply andb_true_iff in Hs as [Hs1 Hs2].
      apply elem_of_cons in Hin as [Hin|Hin]; [discriminate|].
      rewrite !map_app. rewrite !elem_of_app in Hin. rewrite !elem_of_app.
      destruct Hin as [Hin|[Hin|Hin]]; [left | right; left | right; right];
        (apply IH; [unfold all_children; cbn; repeat (try (left; reflexivity); right) | assumption | assumption]).
    + apply elem_of_list_singleton in Hin. discriminate.
  - rewrite unresolved_generic in Hin by exact Ep. rewrite params_generic by exact Ep.
    rewrite sets_closed_generic in Hs by exact Ep.
    rewrite flat_children_spec in Hin. rewrite flat_children_spec. rewrite forall_children_spec in Hs.
    apply elem_of_flat_map in Hin as [c [Hc Hin]].
    apply elem_of_list_fmap.
    assert (Hn: n ∈ map fst (params c)).
    { apply IH; [apply child_all; exact Hc | | exact Hin].
      rewrite forallb_forall in Hs. apply Hs. apply elem_of_list_In. exact Hc. }
    apply elem_of_list_fmap in Hn as [[n' t] [-> Hp]].
    exists (n', t). split; [reflexivity|]. apply elem_of_flat_map. exists c. split; assumption.
Qed.

(** and, the other way round, a reported parameter really occurs *)
Theorem params_sound e n : n ∈ map fst (params e) -> (UValue, n) ∈ unresolved e.
Proof.
  induction e as [e IH] using expr_children_ind. intros Hin.
  destruct (is_param e) eqn:Ep.
  - destruct e; cbn in Ep; try discriminate; cbn in Hin |- *.
    + apply elem_of_nil in Hin. contradiction.
    + apply elem_of_list_singleton in Hin as ->. left.
    + right. rewrite !map_app in Hin. rewrite !elem_of_app in Hin. rewrite !elem_of_app.
      destruct Hin as [Hin|[Hin|Hin]]; [left | right; left | right; right];
        (apply IH; [unfold all_children; cbn; repeat (try (left; reflexivity); right) | assumption]).
    + apply elem_of_nil in Hin. contradiction.
  - rewrite params_generic in Hin by exact Ep. rewrite unresolved_generic by exact Ep.
    rewrite flat_children_spec in Hin. rewrite flat_children_spec.
    apply elem_of_list_fmap in Hin as [[n' t] [-> Hp]].
    apply elem_of_flat_map in Hp as [c [Hc Hp]].
    apply elem_of_flat_map. exists c. split; [exact Hc|].
    apply IH; [apply child_all; exact Hc|].
    apply elem_of_list_fmap. exists (n', t). split; [reflexivity | exact Hp].
Qed.

(** * C06: substitution closes what it is given *)

Lemma lookup_arg_fresh {A} n (m : list (string * A)) : lookup_arg n m = None -> n ∉ map fst m.
Proof.
  unfold lookup_arg. intros H Hin.
  destruct (find (fun kv => bool_decide (kv.1 = n)) m) as [kv|] eqn:E; [discriminate|].
  apply elem_of_list_fmap in Hin as [[k v] [-> Hkv]].
  apply elem_of_list_In in Hkv. pose proof (find_none _ _ E _ Hkv) as Hn. cbn in Hn.
  apply bool_decide_eq_false in Hn. congruence.
Qed.

Lemma arg_value_closed v : unresolved (arg_value_into_expr v) = [].
Proof. destruct v; reflexivity. Qed.

(** after apply_args, a value parameter that is still unresolved had no argument *)
Theorem apply_args_closes args e n :
  sets_closed e = true ->
  (UValue, n) ∈ unresolved (apply_args args e) -> n ∉ map fst args.
Proof.
  induction e as [e IH] using expr_children_ind. intros Hs Hin.
  destruct (is_param e) eqn:Ep.
  - destruct e; cbn in Ep; try discriminate; cbn in Hs, Hin.
    + destruct (unresolved e); [|discriminate]. apply elem_of_nil in Hin. contradiction.
    + destruct (lookup_arg n0 args) as [v|] eqn:El; cbn in Hin.
      * rewrite arg_value_closed in Hin. apply elem_of_nil in Hin. contradiction.
      * apply elem_of_list_singleton in Hin. injection Hin as ->. apply lookup_arg_fresh. exact El.
    + apply andb_true_iff in Hs as [Hs Hs3]. apply andb_true_iff in Hs as [Hs1 Hs2].
      apply elem_of_cons in Hin as [Hin|Hin]; [discriminate|].
      rewrite !elem_of_app in Hin. destruct Hin as [Hin|[Hin|Hin]];
        (eapply IH; [| | exact Hin]; [unfold all_children; cbn; repeat (try (left; reflexivity); right) | assumption]).
    + apply elem_of_list_singleton in Hin. discriminate.
  - rewrite apply_args_generic in Hin by exact Ep.
    rewrite unresolved_generic in Hin by (rewrite is_param_map_children; exact Ep).
    rewrite flat_children_spec, children_map_children in Hin.
    rewrite sets_closed_generic, forall_children_spec in Hs by exact Ep.
    apply elem_of_flat_map in Hin as [c' [Hc' Hin]].
    apply elem_of_list_fmap in Hc' as [c [-> Hc]].
    eapply IH; [apply child_all; exact Hc | | exact Hin].
    rewrite forallb_forall in Hs. apply Hs. apply elem_of_list_In. exact Hc.
Qed.

(** after apply_fees no fee placeholder is left *)
Theorem apply_fees_closes fee e :
  sets_closed e = true -> forall n, (UFees, n) ∉ unresolved (apply_fees fee e).
Proof.
  induction e as [e IH] using expr_children_ind. intros Hs n Hin.
  destruct (is_param e) eqn:Ep.
  - destruct e; cbn in Ep; try discriminate; cbn in Hs, Hin.
    + destruct (unresolved e); [|discriminate]. apply elem_of_nil in Hin. contradiction.
    + apply elem_of_list_singleton in Hin. discriminate.
    + apply andb_true_iff in Hs as [Hs Hs3]. apply andb_true_iff in Hs as [Hs1 Hs2].
      apply elem_of_cons in Hin as [Hin|Hin]; [discriminate|].
      rewrite !elem_of_app in Hin. destruct Hin as [Hin|[Hin|Hin]];
        (eapply IH; [| | exact Hin]; [unfold all_children; cbn; repeat (try (left; reflexivity); right) | assumption]).
    + apply elem_of_nil in Hin. contradiction.
  - rewrite apply_fees_generic in Hin by exact Ep.
    rewrite unresolved_generic in Hin by (rewrite is_param_map_children; exact Ep).
    rewrite flat_children_spec, children_map_children in Hin.
    rewrite sets_closed_generic, forall_children_spec in Hs by exact Ep.
    apply elem_of_flat_map in Hin as [c' [Hc' Hin]].
    apply elem_of_list_fmap in Hc' as [c [-> Hc]].
    eapply IH; [apply child_all; exact Hc | | exact Hin].
    rewrite forallb_forall in Hs. apply Hs. apply elem_of_list_In. exact Hc.
Qed.

(** * C06: the missing-argument guard *)
Theorem missing_arg_refused t args k :
  k ∈ map fst (find_params t) -> k ∉ map fst args ->
  exists k', safe_apply_args t args = Err ("MissingTxArg:" ++ k')
             /\ k' ∈ map fst (find_params t) /\ lookup_arg k' args = None.
Proof.
  intros Hk Hna. unfold safe_apply_args.
  destruct (find _ (find_params t)) as [[k' ty]|] eqn:E.
  - apply find_some_elem in E as [Hin Hb]. exists k'. split; [reflexivity|]. split.
    + apply elem_of_list_fmap. exists (k', ty). split; [reflexivity | exact Hin].
    + cbn in Hb. apply negb_true_iff, bool_decide_eq_false in Hb.
      destruct (lookup_arg k' args); [exfalso; apply Hb; eexists; reflexivity | reflexivity].
  - exfalso. apply elem_of_list_fmap in Hk as [[k0 ty] [-> Hin]].
    apply elem_of_list_In in Hin. pose proof (find_none _ _ E _ Hin) as Hn. cbn in Hn.
    apply negb_false_iff, bool_decide_eq_true in Hn. destruct Hn as [v Hv].
    apply Hna. unfold lookup_arg in Hv.
    destruct (find (fun kv => bool_decide (kv.1 = k0)) args) as [[k1 v1]|] eqn:Ef; [|discriminate].
    apply find_some_elem in Ef as [Hin' Hb]. cbn in Hb. apply bool_decide_eq_true in Hb. subst k1.
    apply elem_of_list_fmap. exists (k0, v1). split; [reflexivity | exact Hin'].
Qed.

Theorem all_args_accepted t args :
  (forall k, k ∈ map fst (find_params t) -> is_Some (lookup_arg k args)) ->
  safe_apply_args t args = Ok (tx_apply_args args t).
Proof.
  intros H. unfold safe_apply_args.
  destruct (find _ (find_params t)) as [[k' ty]|] eqn:E; [|reflexivity].
  apply find_some_elem in E as [Hin Hb]. cbn in Hb.
  apply negb_true_iff, bool_decide_eq_false in Hb. exfalso. apply Hb. apply H.
  apply elem_of_list_fmap. exists (k', ty). split; [reflexivity | exact Hin].
Qed.

(** * C07: the three substitutions commute, on every expression, with no side condition *)

Ltac in_all_children := unfold all_children; cbn; repeat (try (left; reflexivity); right).

Theorem args_fees_commute a f e : apply_args a (apply_fees f e) = apply_fees f (apply_args a e).
Proof.
  induction e as [e IH] using expr_children_ind.
  destruct (is_param e) eqn:Ep.
  - destruct e; cbn in Ep; try discriminate; cbn.
    + reflexivity.
    + destruct (lookup_arg n a); reflexivity.
    + rewrite !IH by in_all_children. reflexivity.
    + reflexivity.
  - rewrite (apply_fees_generic f e Ep), (apply_args_generic a e Ep).
    rewrite apply_args_generic by (rewrite is_param_map_children; exact Ep).
    rewrite apply_fees_generic by (rewrite is_param_map_children; exact Ep).
    rewrite !map_children_compose. apply map_children_ext.
    intros c Hc. apply IH, child_all, Hc.
Qed.

Theorem args_inputs_commute a i e : apply_args a (apply_inputs i e) = apply_inputs i (apply_args a e).
Proof.
  induction e as [e IH] using expr_children_ind.
  destruct (is_param e) eqn:Ep.
  - destruct e; cbn in Ep; try discriminate; cbn.
    + reflexivity.
    + destruct (lookup_arg n a); reflexivity.
    + destruct (lookup_arg n i); reflexivity.
    + reflexivity.
  - rewrite (apply_inputs_generic i e Ep), (apply_args_generic a e Ep).
    rewrite apply_args_generic by (rewrite is_param_map_children; exact Ep).
    rewrite apply_inputs_generic by (rewrite is_param_map_children; exact Ep).
    rewrite !map_children_compose. apply map_children_ext.
    intros c Hc. apply IH, child_all, Hc.
Qed.

Theorem fees_inputs_commute f i e : apply_fees f (apply_inputs i e) = apply_inputs i (apply_fees f e).
Proof.
  induction e as [e IH] using expr_children_ind.
  destruct (is_param e) eqn:Ep.
  - destruct e; cbn in Ep; try discriminate; cbn.
    + reflexivity.
    + reflexivity.
    + destruct (lookup_arg n i); reflexivity.
    + reflexivity.
  - rewrite (apply_inputs_generic i e Ep), (apply_fees_generic f e Ep).
    rewrite apply_fees_generic by (rewrite is_param_map_children; exact Ep).
    rewrite apply_inputs_generic by (rewrite is_param_map_children; exact Ep).
    rewrite !map_children_compose. apply map_children_ext.
    intros c Hc. apply IH, child_all, Hc.
Qed.

(** lifted to whole transactions *)
Lemma tx_map_compose f g t : tx_map f (tx_map g t) = tx_map (fun x => f (g x)) t.
Proof.
  unfold tx_map. destruct t as [fees refs ins outs val mints burns adh coll sig md]; cbn.
  f_equal; rewrite ?map_map; try reflexivity.
  - destruct val; reflexivity.
  - apply map_ext. intros a. cbn. rewrite map_map. reflexivity.
  - destruct sig; cbn; [rewrite map_map|]; reflexivity.
Qed.
Lemma tx_map_ext f g t : (forall e, f e = g e) -> tx_map f t = tx_map g t.
Proof.
  intros H. unfold tx_map. destruct t as [fees refs ins outs val mints burns adh coll sig md]; cbn.
  f_equal; try (apply map_ext; intros x; rewrite ?H; try reflexivity).
  - apply H.
  - destruct val; cbn; rewrite ?H; reflexivity.
  - f_equal. apply map_ext. intros y. rewrite H. reflexivity.
  - destruct sig; cbn; [f_equal; apply map_ext; exact H | reflexivity].
Qed.

Theorem tx_stages_commute a i f t :
  tx_apply_args a (tx_apply_fees f t) = tx_apply_fees f (tx_apply_args a t) /\
  tx_apply_args a (tx_apply_inputs i t) = tx_apply_inputs i (tx_apply_args a t) /\
  tx_apply_fees f (tx_apply_inputs i t) = tx_apply_inputs i (tx_apply_fees f t).
Proof.
  unfold tx_apply_args, tx_apply_fees, tx_apply_inputs. rewrite !tx_map_compose.
  split; [|split]; apply tx_map_ext; intros e;
    [apply args_fees_commute | apply args_inputs_commute | apply fees_inputs_commute].
Qed.

(** non-vacuity: a template with a parameter in index position (the repaired finding F06-1) *)
Example params_complete_example :
  let e := EProperty (EList [ENumber 1; ENumber 2]) (EExpectValue "index" TInt) in
  sets_closed e = true /\ map fst (params e) = ["index"%string] /\
  unresolved (apply_args [("index"%string, ArgInt 1)] e) = [].
Proof. vm_compute. repeat split. Qed.
