#!/bin/sh
# Build the framework from files on disk only (offline): harness + Coq development.
set -e
cd "$(dirname "$0")"
export CARGO_NET_OFFLINE=true RUSTFLAGS="--cfg tx3_verif" CARGO_TARGET_DIR="$PWD/harness/target"
cp /repo/Cargo.lock harness/Cargo.lock
(cd harness && timeout 2400 cargo build --offline --release 2>&1 | tail -3)
mkdir -p coq/gen _work
./harness/target/release/tx3v extract all --out coq/gen || true
(cd coq && coq_makefile -f _CoqProject -o Makefile && timeout 3000 make -j16 2>&1 | tail -5)
